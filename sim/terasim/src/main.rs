#![allow(dead_code, unused_mut)]
//! terasim — deterministic simulation with fault injection for Keats/tera (see /verif/DESIGN.md).
//!
//! Subcommands (all driven by /verif/check):
//!   run       execute a strided share of the runs of one engine, write worker-<o>.json
//!   scenario  print the replay file (scenario) of one run index
//!   replay    execute a replay file; exit 1 when it shows a violation (the expected one if given)
//!   minimize  shrink a replay file while the same violation class persists
mod common;
mod disksim;
mod engine;
mod gen;
mod graph;
mod inherit;
mod minimize;
mod reggen;
mod regsim;
mod rendersim;
mod rng;
mod sval;
mod threadsim;
mod writer;

use common::{Outcome, ReplayFile, Stats, Violation, WorkerSeg};
use serde::{Deserialize, Serialize};
use std::collections::BTreeMap;
use std::io::Write;

#[derive(Clone, Debug, Serialize, Deserialize)]
#[serde(tag = "engine")]
pub enum Scn {
    #[serde(rename = "rendersim")]
    Render(rendersim::RenderScenario),
    #[serde(rename = "regsim")]
    Reg(regsim::RegScenario),
    #[serde(rename = "threadsim")]
    Thread(threadsim::ThreadScenario),
    #[serde(rename = "disksim")]
    Disk(disksim::DiskScenario),
}

fn generate(engine: &str, family: &str, prop: &str, tier: &str, seed: u64) -> Scn {
    match engine {
        "rendersim" => Scn::Render(rendersim::generate(seed, tier, prop)),
        "threadsim" => Scn::Thread(threadsim::generate(seed, tier, prop)),
        "disksim" => Scn::Disk(disksim::generate(seed, tier, prop)),
        "regsim" => Scn::Reg(match family {
            "general" => reggen::generate(seed, tier, prop),
            "graph" => graph::generate(seed, tier, prop),
            "inherit" => inherit::generate(seed, tier, prop),
            other => {
                eprintln!("unknown regsim family {}", other);
                std::process::exit(2);
            }
        }),
        other => {
            eprintln!("unknown engine {}", other);
            std::process::exit(2);
        }
    }
}

fn execute(s: &Scn, stats: &mut Stats) -> Outcome {
    match s {
        Scn::Render(sc) => rendersim::execute(sc, stats),
        Scn::Reg(sc) => regsim::execute(sc, stats),
        Scn::Thread(sc) => threadsim::execute(sc, stats),
        Scn::Disk(sc) => disksim::execute(sc, stats),
    }
}

fn shrink(s: &Scn) -> Vec<Scn> {
    match s {
        Scn::Render(sc) => rendersim::shrink_candidates(sc).into_iter().map(Scn::Render).collect(),
        Scn::Reg(sc) => regsim::shrink_candidates(sc).into_iter().map(Scn::Reg).collect(),
        Scn::Thread(sc) => threadsim::shrink_candidates(sc).into_iter().map(Scn::Thread).collect(),
        Scn::Disk(sc) => disksim::shrink_candidates(sc).into_iter().map(Scn::Disk).collect(),
    }
}

fn args_map(args: &[String]) -> BTreeMap<String, String> {
    let mut m = BTreeMap::new();
    let mut i = 0;
    while i < args.len() {
        if let Some(k) = args[i].strip_prefix("--") {
            if i + 1 < args.len() && !args[i + 1].starts_with("--") {
                m.insert(k.to_string(), args[i + 1].clone());
                i += 2;
                continue;
            }
            m.insert(k.to_string(), "true".to_string());
        }
        i += 1;
    }
    m
}

fn get<'a>(m: &'a BTreeMap<String, String>, k: &str) -> &'a str {
    match m.get(k) {
        Some(v) => v,
        None => {
            eprintln!("missing --{}", k);
            std::process::exit(2);
        }
    }
}

fn on_big_stack<T: Send + 'static>(f: impl FnOnce() -> T + Send + 'static) -> T {
    // every operation of every engine runs on a thread with the std default for spawned threads:
    // 2 MiB (DESIGN.md §2.3 "stack")
    std::thread::Builder::new().stack_size(2 << 20).name("sim".into()).spawn(f).expect("spawn").join().expect("sim thread panicked")
}

fn replay_file(engine: &str, prop: &str, tier: &str, master: u64, index: u64, seed: u64, scn: &Scn, expect: Option<Violation>) -> ReplayFile {
    ReplayFile {
        format: 1,
        property: prop.to_string(),
        engine: engine.to_string(),
        master_seed: master,
        run_index: index,
        run_seed: seed,
        tier: tier.to_string(),
        scenario: serde_json::to_value(scn).expect("scenario serialises"),
        expect,
        minimised: false,
        note: String::new(),
        worker: None,
        prelude: false,
        build: common::BUILD.to_string(),
    }
}

/// One run = one fresh 2 MiB thread: thread-local state of the code under test cannot leak from
/// one run into the next, so a scenario is self-contained (process-global state still can leak;
/// see `ReplayFile::prelude`).
fn run_isolated(scn: Scn, stats: Stats) -> (Scn, Outcome, Stats, (u64, u64, u64)) {
    common::install_panic_hook();
    let backup = scn.clone();
    let shared = std::sync::Arc::new(std::sync::Mutex::new(stats));
    let shared2 = shared.clone();
    let h = std::thread::Builder::new()
        .stack_size(2 << 20)
        .name("sim".into())
        .spawn(move || {
            engine::install_hooks();
            let mut st = std::mem::take(&mut *shared2.lock().unwrap());
            let o = execute(&scn, &mut st);
            *shared2.lock().unwrap() = st;
            let hooks = (engine::stack_max() as u64, engine::end_renders(), engine::steps_total());
            (scn, o, hooks)
        })
        .expect("spawn");
    match h.join() {
        Ok((scn, o, hooks)) => {
            let st = std::mem::take(&mut *shared.lock().unwrap());
            (scn, o, st, hooks)
        }
        Err(_) => {
            // a panic escaped every guard of the engine (an engine call the oracles make outside
            // catch_unwind, or the simulator's own code): never lose it, never die silently
            let msg = common::LAST_PANIC_GLOBAL.lock().ok().and_then(|g| g.clone()).unwrap_or_default();
            // Whose panic? A location in the simulator's own sources is a simulator bug (exit 2).
            // Anything else — tera's sources, or the standard library (slicing, unwrap and
            // arithmetic report a location inside core when the caller is not `track_caller`) —
            // is attributed to the code under test: the simulator's own slicing and arithmetic
            // run identically on the unchanged tree, where no such panic occurs.
            let from_sim = msg.contains("terasim/src/") || msg.contains("shim-ahash/") || msg.contains("sim/terasim");
            let mut o = Outcome::default();
            o.violations.push(Violation::new(if from_sim { "HARNESS" } else { "C07" }, "panic-outside-guards", msg));
            let st = std::mem::take(&mut *shared.lock().unwrap_or_else(|e| e.into_inner()));
            (backup, o, st, (0, 0, 0))
        }
    }
}

#[derive(Serialize)]
struct WorkerReport {
    stats: Stats,
    distinct: Vec<u64>,
    distinct_named: BTreeMap<String, Vec<u64>>,
    violations: Vec<ReplayFile>,
    deferred: Vec<ReplayFile>,
    fingerprints: Vec<(u64, u64)>,
    runs: u64,
}

fn cmd_run(m: BTreeMap<String, String>) -> i32 {
    let engine = get(&m, "engine").to_string();
    let family = m.get("family").cloned().unwrap_or_default();
    let check = get(&m, "check").to_string();
    let prop = get(&m, "prop").to_string();
    let tier = get(&m, "tier").to_string();
    let master: u64 = get(&m, "master").parse().unwrap();
    let from: u64 = get(&m, "from").parse().unwrap();
    let to: u64 = get(&m, "to").parse().unwrap();
    let stride: u64 = get(&m, "stride").parse().unwrap();
    let offset: u64 = get(&m, "offset").parse().unwrap();
    let out = get(&m, "out").to_string();
    let want_fp = m.contains_key("fingerprints");
    let max_violations: usize = m.get("max-violations").map(|s| s.parse().unwrap()).unwrap_or(5);

    let report = {
        common::install_panic_hook();
        let mut stats = Stats::default();
        let mut violations: Vec<ReplayFile> = Vec::new();
        let mut deferred: Vec<ReplayFile> = Vec::new();
        let mut fps = Vec::new();
        let hb_path = format!("{}/worker-{}.hb", out, offset);
        let mut runs = 0u64;
        let (mut stack_max, mut end_calls, mut steps_total) = (0u64, 0u64, 0u64);
        let seg = WorkerSeg { check: check.clone(), family: family.clone(), from, stride, offset };
        let mut i = from + offset;
        while i < to {
            let seed = rng::run_seed(master, &format!("{}/{}/{}", check, engine, family), i);
            // heartbeat: which run is about to start (read by the supervisor after a crash)
            common::heartbeat_start(&hb_path, i, seed);
            let scn = generate(&engine, &family, &prop, &tier, seed);
            // wall time is measured for the evidence only (margin to the hang detector); it never
            // decides anything
            let t_run = std::time::Instant::now();
            let (scn, mut outcome, st, hooks) = run_isolated(scn, std::mem::take(&mut stats));
            stats = st;
            stats.maxi("slowest_run_ms", t_run.elapsed().as_millis() as u64);
            stack_max = stack_max.max(hooks.0);
            end_calls += hooks.1;
            steps_total += hooks.2;
            runs += 1;
            // threadsim: the replay scenario pins the recorded task sequence of the failing iteration
            let mut scn = scn;
            if let Scn::Thread(ts) = &mut scn {
                if let Some(tr) = outcome.deferred.iter().find_map(|d| d.get("replay_trace").cloned()) {
                    if let Ok(trace) = serde_json::from_value::<Vec<usize>>(tr) {
                        ts.scheds = vec![threadsim::Sched::Replay { trace }];
                    }
                }
                outcome.deferred.clear();
            }
            if want_fp {
                // the fingerprint also covers the generated scenario itself: generate(seed) must
                // re-create it byte for byte
                let sj = serde_json::to_vec(&scn).unwrap_or_default();
                fps.push((i, outcome.fingerprint ^ rng::fnv1a(&sj).rotate_left(17)));
            }
            for d in outcome.deferred {
                let shape = d.get("crash_shape").and_then(|s| s.as_str()).unwrap_or("").to_string();
                if deferred.iter().filter(|r| r.scenario.get("crash_shape").and_then(|s| s.as_str()) == Some(shape.as_str())).count() < 2 {
                    let mut rf = replay_file(&engine, &prop, &tier, master, i, seed, &scn, None);
                    rf.scenario = d;
                    rf.note = "sacrificial-child scenario: renders a state whose effective include graph is cyclic".into();
                    deferred.push(rf);
                }
            }
            for v in outcome.violations {
                stats.inc("violations_seen");
                // keep one replay file per (property, invariant, signature) class per worker
                if violations.len() < max_violations && !violations.iter().any(|r| r.expect.as_ref().map(|e| (&e.property, &e.invariant, &e.signature)) == Some((&v.property, &v.invariant, &v.signature))) {
                    let mut rf = replay_file(&engine, &prop, &tier, master, i, seed, &scn, Some(v));
                    rf.worker = Some(seg.clone());
                    violations.push(rf);
                }
            }
            i += stride;
        }
        let _ = std::fs::remove_file(&hb_path);
        stats.maxi("stack_bytes", stack_max);
        stats.add("end_of_render_hook_calls", end_calls);
        stats.add("vm_steps_total", steps_total);
        let distinct: Vec<u64> = stats.distinct.iter().cloned().collect();
        let distinct_named = stats.distinct_named.iter().map(|(k, v)| (k.clone(), v.iter().cloned().collect())).collect();
        (WorkerReport { stats, distinct, distinct_named, violations, deferred, fingerprints: fps, runs }, out, offset)
    };
    let (report, out, offset) = report;
    // the main distinct set can be millions of fingerprints: raw little-endian u64s, not JSON
    let mut raw = Vec::with_capacity(report.distinct.len() * 8);
    for h in &report.distinct {
        raw.extend_from_slice(&h.to_le_bytes());
    }
    std::fs::write(format!("{}/worker-{}.distinct.bin", out, offset), raw).expect("write distinct set");
    let mut report = report;
    report.distinct.clear();
    for (name, set) in report.distinct_named.iter_mut() {
        let mut raw = Vec::with_capacity(set.len() * 8);
        for h in set.iter() {
            raw.extend_from_slice(&h.to_le_bytes());
        }
        std::fs::write(format!("{}/worker-{}.named-{}.bin", out, offset, name), raw).expect("write named distinct set");
        set.clear();
    }
    let path = format!("{}/worker-{}.json", out, offset);
    std::fs::write(&path, serde_json::to_vec(&report).unwrap()).expect("write worker report");
    0
}

fn cmd_scenario(m: BTreeMap<String, String>) -> i32 {
    let engine = get(&m, "engine");
    let family = m.get("family").cloned().unwrap_or_default();
    let check = get(&m, "check");
    let prop = get(&m, "prop");
    let tier = get(&m, "tier");
    let master: u64 = get(&m, "master").parse().unwrap();
    let index: u64 = get(&m, "index").parse().unwrap();
    let seed = rng::run_seed(master, &format!("{}/{}/{}", check, engine, family), index);
    let scn = generate(engine, &family, prop, tier, seed);
    let rf = replay_file(engine, prop, tier, master, index, seed, &scn, None);
    println!("{}", serde_json::to_string_pretty(&rf).unwrap());
    0
}

fn load_replay(path: &str) -> (ReplayFile, Scn) {
    let data = match std::fs::read(path) {
        Ok(d) => d,
        Err(e) => {
            eprintln!("cannot read {}: {}", path, e);
            std::process::exit(2);
        }
    };
    let rf: ReplayFile = match serde_json::from_slice(&data) {
        Ok(r) => r,
        Err(e) => {
            eprintln!("bad replay file {}: {}", path, e);
            std::process::exit(2);
        }
    };
    let scn: Scn = match serde_json::from_value(rf.scenario.clone()) {
        Ok(s) => s,
        Err(e) => {
            eprintln!("bad scenario in {}: {}", path, e);
            std::process::exit(2);
        }
    };
    (rf, scn)
}

fn same_class(v: &Violation, e: &Violation) -> bool {
    v.property == e.property && v.invariant == e.invariant && v.signature == e.signature
}

fn cmd_replay(path: &str) -> i32 {
    let (rf, scn) = load_replay(path);
    if rf.build != common::BUILD {
        eprintln!("{} was written by the {:?} build of the simulator, this is the {:?} build", path, rf.build, common::BUILD);
        return 2;
    }
    common::install_panic_hook();
    // supervision only: lets the driver tell a replay that is slow from one that is stuck
    if let Ok(hb) = std::env::var("TERASIM_HB") {
        common::heartbeat_start(&hb, rf.run_index, rf.run_seed);
    }
    if rf.prelude {
        // re-create the process state the finding worker was in: its earlier runs, in order
        if let Some(w) = &rf.worker {
            let mut i = w.from + w.offset;
            while i < rf.run_index {
                let seed = rng::run_seed(rf.master_seed, &format!("{}/{}/{}", w.check, rf.engine, w.family), i);
                let s = generate(&rf.engine, &w.family, &rf.property, &rf.tier, seed);
                let _ = run_isolated(s, Stats::default());
                i += w.stride;
            }
        }
    }
    let (_, outcome, _, _) = run_isolated(scn, Stats::default());
    let mut hit = false;
    for v in &outcome.violations {
        let matches = rf.expect.as_ref().map(|e| same_class(v, e)).unwrap_or(true);
        println!("{}", serde_json::to_string(&serde_json::json!({"violation": v, "matches_expected": matches})).unwrap());
        if matches {
            hit = true;
        }
    }
    println!("{}", serde_json::json!({"fingerprint": outcome.fingerprint, "violations": outcome.violations.len(), "reproduced": hit}));
    if hit {
        1
    } else {
        0
    }
}

fn cmd_minimize(path: &str, out: &str, budget_s: u64) -> i32 {
    let (rf, scn) = load_replay(path);
    let Some(expect) = rf.expect.clone() else {
        eprintln!("replay file has no expected violation");
        return 2;
    };
    if expect.invariant == "process-crash" {
        // a crash cannot be observed in-process: every candidate runs in a child of its own
        let exe = std::env::current_exe().expect("own path");
        let tmp = format!("{}.cand.json", out);
        let rf_base = rf.clone();
        let crashes = |s: &Scn| -> bool {
            let mut c = rf_base.clone();
            c.scenario = serde_json::to_value(s).unwrap();
            c.expect = None;
            if std::fs::write(&tmp, serde_json::to_vec(&c).unwrap()).is_err() {
                return false;
            }
            match std::process::Command::new(&exe).arg("replay").arg(&tmp).stdout(std::process::Stdio::null()).stderr(std::process::Stdio::null()).status() {
                Ok(st) => {
                    use std::os::unix::process::ExitStatusExt;
                    st.signal().is_some()
                }
                Err(_) => false,
            }
        };
        if !crashes(&scn) {
            let _ = std::fs::remove_file(&tmp);
            return 0;
        }
        let (min, accepted) = minimize::minimise(scn, crashes, shrink, std::time::Duration::from_secs(budget_s));
        let _ = std::fs::remove_file(&tmp);
        let mut rf2 = rf;
        rf2.scenario = serde_json::to_value(&min).unwrap();
        rf2.minimised = accepted > 0;
        rf2.note = format!("minimised in child processes: {} shrink steps accepted", accepted);
        std::fs::write(out, serde_json::to_vec_pretty(&rf2).unwrap()).expect("write minimised replay");
        return 0;
    }
    let (min, accepted) = on_big_stack(move || {
        common::install_panic_hook();
        engine::install_hooks();
        let exp = expect.clone();
        let still = move |s: &Scn| {
            let mut st = Stats::default();
            execute(s, &mut st).violations.iter().any(|v| same_class(v, &exp))
        };
        if !still(&scn) {
            return (scn, 0);
        }
        let (mut min, n) = minimize::minimise(scn, still, shrink, std::time::Duration::from_secs(budget_s));
        // threadsim: pin the task sequence of the failing iteration of the minimised scenario
        if let Scn::Thread(ts) = &mut min {
            if !matches!(ts.scheds.first(), Some(threadsim::Sched::Replay { .. })) {
                let mut st = Stats::default();
                let o = threadsim::execute(ts, &mut st);
                if let Some(tr) = o.deferred.iter().find_map(|d| d.get("replay_trace").cloned()) {
                    if let Ok(trace) = serde_json::from_value::<Vec<usize>>(tr) {
                        let mut pinned = ts.clone();
                        pinned.scheds = vec![threadsim::Sched::Replay { trace }];
                        let mut st2 = Stats::default();
                        if threadsim::execute(&pinned, &mut st2).violations.iter().any(|v| same_class(v, &expect)) {
                            *ts = pinned;
                        }
                    }
                }
            }
        }
        (min, n)
    });
    let mut rf2 = rf;
    rf2.scenario = serde_json::to_value(&min).unwrap();
    rf2.minimised = accepted > 0;
    rf2.note = format!("minimised: {} shrink steps accepted", accepted);
    std::fs::write(out, serde_json::to_vec_pretty(&rf2).unwrap()).expect("write minimised replay");
    0
}

fn main() {
    let args: Vec<String> = std::env::args().collect();
    if args.len() < 2 {
        eprintln!("usage: terasim run|scenario|replay|minimize ...");
        std::process::exit(2);
    }
    let code = match args[1].as_str() {
        "run" => cmd_run(args_map(&args[2..])),
        "scenario" => cmd_scenario(args_map(&args[2..])),
        "replay" => cmd_replay(&args[2]),
        "minimize" => {
            let budget = args.get(4).and_then(|s| s.parse().ok()).unwrap_or(30);
            cmd_minimize(&args[2], &args[3], budget)
        }
        "dbg-src" => {
            // terasim dbg-src <source> [<source2> ...]: register t0, t1, ... and render each with
            // the rich context (a quick way to ask the engine what it does with a text)
            let srcs: Vec<String> = args[2..].to_vec();
            on_big_stack(move || {
                let mut t = tera::Tera::default();
                let items: Vec<(String, String)> = srcs.iter().enumerate().map(|(i, s)| (format!("t{}", i), s.clone())).collect();
                match t.add_raw_templates(items.iter().map(|(a, b)| (a.as_str(), b.as_str()))) {
                    Err(e) => println!("ADD ERR: {}", e),
                    Ok(()) => {
                        let rng = rng::Rng::new(1);
                        let ctx = sval::gen_context(&rng, 0).to_context();
                        for (n, _) in &items {
                            match std::panic::catch_unwind(std::panic::AssertUnwindSafe(|| t.render(n, &ctx))) {
                                Ok(r) => println!("{} => {:?}", n, r.map_err(|e| e.to_string())),
                                Err(_) => println!("{} => PANIC", n),
                            }
                        }
                    }
                }
            });
            0
        }
        "dbg-cost" => {
            let (_rf, scn) = load_replay(&args[2]);
            if let Scn::Reg(sc) = scn {
                on_big_stack(move || {
                    engine::install_hooks();
                    let mut t = engine::new_tera(&sc.config);
                    for op in &sc.ops {
                        let items: Vec<(String, String)> = match op {
                            regsim::Op::AddRaw { name, source } => vec![(name.clone(), source.clone())],
                            regsim::Op::AddBatch { items } => items.clone(),
                            _ => vec![],
                        };
                        let _ = t.add_raw_templates(items.iter().map(|(a, b)| (a.as_str(), b.as_str())));
                    }
                    let ctxs: Vec<tera::Context> = sc.contexts.iter().map(|c| c.to_context()).collect();
                    let mut names: Vec<String> = t.get_template_names().map(|s| s.to_string()).collect();
                    names.sort();
                    for n in names {
                        for (ci, c) in ctxs.iter().enumerate() {
                            let s0 = engine::steps_total();
                            let t0 = std::time::Instant::now();
                            let r = t.render(&n, c);
                            println!("{} ctx{} steps={} ms={} out={}", n, ci, engine::steps_total() - s0, t0.elapsed().as_millis(), r.map(|s| s.len() as i64).unwrap_or(-1));
                        }
                    }
                });
            }
            0
        }
        "dbg-cost-render" => {
            // terasim dbg-cost-render <replay>: time / steps / bytes / write calls of every
            // target x context of a rendersim scenario under a perfect writer
            let (_rf, scn) = load_replay(&args[2]);
            if let Scn::Render(sc) = scn {
                on_big_stack(move || {
                    engine::install_hooks();
                    let mut t = engine::new_tera(&sc.config);
                    if let Err(e) = t.add_raw_templates(sc.templates.iter().map(|(a, b)| (a.as_str(), b.as_str()))) {
                        println!("ADD ERR {}", e);
                        return;
                    }
                    let ctxs: Vec<tera::Context> = sc.contexts.iter().map(|c| c.to_context()).collect();
                    for (ti, target) in sc.targets.iter().enumerate() {
                        for (ci, c) in ctxs.iter().enumerate() {
                            let s0 = engine::steps_total();
                            let t0 = std::time::Instant::now();
                            let mut w = writer::SimWriter::new(writer::WPlan::perfect());
                            let r = rendersim::run_target(&t, target, c, &mut w);
                            println!("target {} ctx {} steps={} us={} calls={} bytes={} ok={}", ti, ci, engine::steps_total() - s0, t0.elapsed().as_micros(), w.stats.calls, w.accepted.len(), r.is_ok());
                        }
                    }
                });
            }
            0
        }
        "dbg-graph" => {
            let (_rf, scn) = load_replay(&args[2]);
            if let Scn::Reg(sc) = scn {
                on_big_stack(move || {
                    engine::install_hooks();
                    let mut t = engine::new_tera(&sc.config);
                    let mut m: std::collections::BTreeMap<String, String> = Default::default();
                    for op in &sc.ops {
                        let items: Vec<(String, String)> = match op {
                            regsim::Op::AddRaw { name, source } => vec![(name.clone(), source.clone())],
                            regsim::Op::AddBatch { items } => items.clone(),
                            _ => vec![],
                        };
                        let r = t.add_raw_templates(items.iter().map(|(a, b)| (a.as_str(), b.as_str())));
                        println!("op {:?} -> {}", items.iter().map(|x| x.0.clone()).collect::<Vec<_>>(), r.is_ok());
                        if r.is_ok() {
                            for (a, b) in items {
                                m.insert(a, b);
                            }
                        }
                    }
                    for (k, v) in &m {
                        println!("{} = {}", k, v);
                    }
                    let gm = graph::GraphModel { nodes: m.iter().map(|(k, v)| (k.clone(), graph::parse_node(v))).collect(), prefixes: sc.config.prefixes.clone() };
                    println!("verdict {:?}", gm.verdict());
                    println!("edges(with comps) {:?}", gm.effective_edges(true));
                    println!("edges(no comps) {:?}", gm.effective_edges(false));
                });
            }
            0
        }
        "count-distinct" => {
            // union size of the workers' fingerprint files (raw little-endian u64s)
            let mut all: Vec<u64> = Vec::new();
            for f in &args[2..] {
                if let Ok(b) = std::fs::read(f) {
                    all.extend(b.chunks_exact(8).map(|c| u64::from_le_bytes(c.try_into().unwrap())));
                }
            }
            all.sort_unstable();
            all.dedup();
            println!("{}", all.len());
            0
        }
        "engines" => {
            println!("rendersim regsim threadsim disksim");
            0
        }
        "dbg-gen" => {
            // generator health: histogram of world rejections and render errors
            let n: u64 = args.get(2).and_then(|s| s.parse().ok()).unwrap_or(300);
            on_big_stack(move || {
                let mut rej: BTreeMap<String, (u64, String)> = BTreeMap::new();
                let mut errs: BTreeMap<String, u64> = BTreeMap::new();
                for i in 0..n {
                    let sc = rendersim::generate(rng::run_seed(1, "dbg", i), "quick", "C18");
                    ahash::sim::reset(ahash::sim::Mode::PerInstance, 1);
                    let mut t = engine::new_tera(&sc.config);
                    if let Err(e) = t.add_raw_templates(sc.templates.iter().map(|(n, s)| (n.as_str(), s.as_str()))) {
                        let msg = format!("{}", e);
                        let key: String = msg.lines().next().unwrap_or("").chars().take(90).collect();
                        rej.entry(key).or_insert((0, msg.clone())).0 += 1;
                        continue;
                    }
                    let ctxs: Vec<tera::Context> = sc.contexts.iter().map(|c| c.to_context()).collect();
                    for tg in &sc.targets {
                        if let Err(e) = rendersim::run_target_string(&t, tg, &ctxs[0]) {
                            let msg = format!("{}", e);
                            let key: String = msg.lines().next().unwrap_or("").chars().take(70).collect();
                            let key = key.split('`').next().unwrap_or("").to_string();
                            *errs.entry(key).or_insert(0) += 1;
                        } else {
                            *errs.entry("OK".into()).or_insert(0) += 1;
                        }
                    }
                }
                let mut r: Vec<_> = rej.into_iter().collect();
                r.sort_by_key(|x| std::cmp::Reverse(x.1 .0));
                for (k, (c, full)) in r.iter().take(12) {
                    println!("REJ {:4} {}\n{}\n", c, k, engine::trunc(full));
                }
                let mut e: Vec<_> = errs.into_iter().collect();
                e.sort_by_key(|x| std::cmp::Reverse(x.1));
                for (k, c) in e.iter().take(40) {
                    println!("ERR {:5} {}", c, k);
                }
            });
            0
        }
        "f1" => {
            // stand-alone run of the F1 probe set
            let vs = on_big_stack(|| {
                let mut st = Stats::default();
                rendersim::f1_probes(1, &mut st)
            });
            for v in &vs {
                println!("{}", serde_json::to_string(v).unwrap());
            }
            if vs.is_empty() {
                0
            } else {
                1
            }
        }
        other => {
            eprintln!("unknown subcommand {}", other);
            2
        }
    };
    std::process::exit(code);
}
