//! Engine `disksim` (C06, scoped): the closure of a valid corpus under storage faults — every
//! truncation offset, bit flips, NUL-filled and duplicated ranges — read through Tera's real file
//! path on tmpfs (or add_raw_template / render_str for UTF-8 variants), under six delimiter sets
//! and with nesting up to twice each parser limit (DESIGN.md §5.6).
use crate::common::{catch, Outcome, Stats, Violation};
use crate::engine::{self, canon, new_tera, Config};
use crate::gen::{Delims, Gen, GenCfg};
use crate::rng::{Fnv, Rng};
use crate::sval::{gen_context, SCtx};
use ahash::sim::Mode;
use serde::{Deserialize, Serialize};
use std::path::PathBuf;
use tera::{Context, Tera};

#[derive(Clone, Debug, Serialize, Deserialize, PartialEq)]
pub enum Variants {
    /// everything the tier prescribes, derived from `seed`
    Tier { thorough: bool, seed: u64 },
    /// explicit list of byte strings (hex) — minimised replays
    Explicit(Vec<(String, String)>), // (kind, hex)
}

#[derive(Clone, Debug, Serialize, Deserialize, PartialEq)]
pub struct DiskScenario {
    pub config: Config,
    pub hash_base: u64,
    /// valid templates registered first (what the file may depend on)
    pub base: Vec<(String, String)>,
    pub file_name: String,
    pub source: String,
    pub variants: Variants,
    pub context: SCtx,
    /// 1 in n UTF-8 variants goes through the file path too (non-UTF-8 ones always do)
    pub via_file_every: usize,
    /// non-empty: this source has a known crash shape (finding F6: long left-deep chain) and is
    /// only ever registered in a sacrificial child process
    #[serde(default)]
    pub crash_shape: String,
    #[serde(default)]
    pub sacrificial: bool,
    /// a delimiter configuration outside the simulator's eight well-behaved sets (possibly an
    /// invalid one): applied with `set_delimiters` under a panic guard; if the engine refuses it
    /// the run goes on with the defaults
    #[serde(default)]
    pub odd_delims: Option<Delims>,
}

/// Two-byte strings that `set_delimiters` accepts in any position (plus a few it must refuse).
const ODD_DELIMS: &[&str] = &[
    "{%", "%}", "{{", "}}", "{#", "#}", "[[", "]]", "<%", "%>", "--", "- ", " -", "  ", "\n\n", "ab", "a ", "\"\"", "''", "``", "\u{e9}", "\u{a9}", "{-", "-}", "%%", "((", "))", "..", "::", "||", "~~",
    "00", "1 ", "\\\\", "\u{0}\u{0}", "{\n", "\r\n", "-%", "%-", "{ ", " }", "+-", "-+", "\t\t", "", "{", "{{{", "\u{20ac}", "\u{1F389}",
];

/// Template names that are legal keys of the registry but awkward in lookups and error reports.
const ODD_NAMES: &[&str] = &[
    "", " ", "a\u{0}b", "../x", "x\ny", "x\r\ny", "{{ x }}", "{% x %}", "\u{540d}\u{524d}.html", "a\"b", "a`b'c", "\u{202e}rtl.html", "tab\tname", "%s{}{0}", "a/b/../c.html", "\u{feff}bom", "\u{301}combining",
    "-->", "\u{1b}[31mred", "trailing.", ".", "..", "/", "\\", "C:\\x.html", "name with spaces.html",
];

/// Deep-nesting / huge-literal sources: the parser's limits, not the stack, must stop them.
/// `depth` up to 90 goes through the full fault closure; "deep" scenarios use 100..20000 levels
/// with a handful of variants (cheap while the limits work: the parser gives up at level ~40).
pub const NEST_KINDS: usize = 28;
pub fn nest_source(kind: usize, depth: usize, rng: &Rng, d: &Delims) -> String {
    let tag = |s: &str| format!("{} {} {}", d.bs, s, d.be);
    let var = |s: &str| format!("{} {} {}", d.vs, d.sanitize_inner(s), d.ve);
    let wrap = |open: &str, core: &str, close: &str| {
        let mut e = String::with_capacity(depth * (open.len() + close.len()) + core.len());
        for _ in 0..depth {
            e.push_str(open);
        }
        e.push_str(core);
        for _ in 0..depth {
            e.push_str(close);
        }
        e
    };
    match kind % NEST_KINDS {
        0 => {
            let mut s = String::new();
            for _ in 0..depth {
                s.push_str(&tag("if true"));
            }
            s.push('x');
            for _ in 0..depth {
                s.push_str(&tag("endif"));
            }
            s
        }
        1 => {
            let mut s = String::new();
            for i in 0..depth {
                s.push_str(&tag(&format!("for v{} in [1]", i)));
            }
            for _ in 0..depth {
                s.push_str(&tag("endfor"));
            }
            s
        }
        2 => var(&wrap("(", "1", ")")),
        3 => var(&wrap("[", "1", "]")),
        // (a flat chain, not nesting: long ones are finding F6 and live in chain_source)
        4 => var(&format!("x{}", "[0]".repeat(depth.min(90)))),
        5 => var(&format!("x{}", wrap("[y", "", "]"))),
        6 => var(&format!("{}1", "not ".repeat(depth))),
        7 => var(&format!("{}1", "- ".repeat(depth))),
        8 => var(&"9".repeat(rng.range(1, 60))),
        9 => var(&format!("{}.{}", "9".repeat(rng.range(1, 40)), "9".repeat(rng.range(1, 40)))),
        10 => var(&wrap("2 if true else (", "1", ")")),
        11 => {
            let mut s = String::new();
            for i in 0..depth {
                s.push_str(&tag(&format!("block b{}", i)));
            }
            for _ in 0..depth {
                s.push_str(&tag("endblock"));
            }
            s
        }
        // list comprehensions nested in target / condition / element position
        12 => var(&wrap("[x for x in ", "[1]", "]")),
        13 => var(&wrap("[x for x in [1] if ", "true", "]")),
        14 => var(&wrap("[", "1", " for x in [1]]")),
        // map literals, function / filter / test arguments, component attributes
        15 => var(&wrap("{\"a\": ", "1", "}")),
        16 => var(&wrap("range(end=", "1", ")")),
        17 => var(&wrap("1 | default(value=", "1", ")")),
        18 => var(&wrap("1 is divisible_by(divisor=", "1", ")")),
        19 => var(&wrap("x[", "0", "]")),
        20 => var(&wrap("x[", "0", ":]")),
        21 => {
            let mut s = String::new();
            for _ in 0..depth {
                s.push_str(&tag("filter upper"));
            }
            s.push('x');
            for _ in 0..depth {
                s.push_str(&tag("endfilter"));
            }
            s
        }
        22 => {
            let mut s = String::new();
            for i in 0..depth {
                s.push_str(&tag(&format!("set v{}", i)));
            }
            s.push('x');
            for _ in 0..depth {
                s.push_str(&tag("endset"));
            }
            s
        }
        23 => var(&wrap("{...", "{}", "}")),
        // component calls nested through attribute braces / spreads (not a kind of nesting any
        // of the generic guards sees by accident)
        26 => format!("{} {} {}", d.vs, wrap("<A x={", "<A/>", "}/>"), d.ve),
        27 => format!("{} {} {}", d.vs, wrap("<A {...", "m", "}/>"), d.ve),
        // legal but unusual shapes for the compile stage (empty bodies, constant conditions,
        // spreads of literals, nested comprehensions, nothing but a comment / a raw block)
        24 => {
            const SHAPES: &[&str] = &[
                "{% if x %}{% endif %}", "{% if x %}{% else %}{% endif %}", "{% if true %}a{% elif false %}{% endif %}", "{% for a in b %}{% endfor %}", "{% for a in b %}{% else %}{% endfor %}",
                "{% for a in [] %}x{% else %}{% endfor %}", "{% block b %}{% endblock %}", "{% block b %}{% endblock b %}", "{% filter upper %}{% endfilter %}", "{% set a %}{% endset %}",
                "{% set_global a = [] %}", "{{ 1 if true else 2 if false else 3 }}", "{{ [] }}{{ {} }}", "{{ [...[], ...[]] }}", "{{ [...1] }}", "{{ [1, ...\"ab\"] }}", "{{ [...none] }}", "{{ [...2.5] }}",
                "{{ [...{\"a\": 1}] }}", "{{ {...1} }}", "{{ {...[1]} }}", "{{ {...{}, \"a\": 1, ...{\"a\": 2} } }}", "{{ [...[1, 2], x] }}", "{{ [[y for y in x] for x in [[1]]] }}", "{{ [x for x in [] if x] }}",
                "{# only a comment #}", "{% raw %}{% endraw %}", "{% raw %}{{ x }}{% endraw %}", "{{ true and false or not true }}", "{{ 1 < 2 < 3 }}", "{{ 1 == 1 == true }}", "{{ not not not x }}", "{{ -(-(-1)) }}",
                "{# multi\nline\ncomment #}", "{% raw %}\n{{ x }}\n{% endraw %}", "{{ \"a\nb\" }}", "{{ 'a\r\nb' }}", "{{\nx\n}}", "{%\nif x\n%}a{%\nendif\n%}", "a\n\n{{ x |\n upper }}\n", "{{ `a\n\nb` ~\n1 }}",
                "\n\n\n{# c\r\n#}\r\n{{ \"\u{e9}\n\u{1F389}\" }}",
                // loop-only statements where no loop is open — alone, and after constructs that
                // open and close a loop context of their own (for, comprehension, component)
                "{% continue %}", "{% break %}", "{% if a %}{% break %}{% endif %}", "{{ [x for x in y] }}{% continue %}", "{{ [x for x in y] }}{% if a %}{% break %}{% endif %}",
                "{% set a = [x for x in y if x] %}{% continue %}", "{% for a in b %}{% endfor %}{% continue %}", "{% for a in b %}{% else %}{% break %}{% endfor %}",
                "{% component C() %}{{ [x for x in y] }}{% continue %}{% endcomponent C %}", "{% for a in b %}{% component D() %}{% break %}{% endcomponent D %}{% endfor %}",
                "{% for a in [x for x in y] %}{% endfor %}{% break %}", "{% filter upper %}{% continue %}{% endfilter %}", "{% block b %}{% break %}{% endblock %}",
                // conditional expressions and keyword operators
                "{{ a if b else c if d else e }}", "{{ a if b if c else d else e }}", "{{ a if b }}", "{{ if }}", "{{ else }}", "{{ a if else c }}", "{{ a if b else }}", "{{ x[a if b else c] }}", "{{ f | truncate(length=1 if a else 2) }}",
                "{{ [a if b else c, d if e] }}", "{{ {\"k\": a if b else c} }}", "{{ not not a in b }}", "{{ a is not not b }}", "{{ a in }}", "{{ not }}", "{{ a and }}", "{{ or b }}", "{{ a.if }}", "{{ a.not }}", "{{ a.in }}", "{{ a not b }}",
                "{{ a is }}", "{{ a is not }}", "{{ a not in }}", "{{ a if b else c | upper if d else e }}", "{{ (a if b) }}", "{{ a if (b else c) }}", "{% if a if b else c %}{% endif %}", "{% for x in a if b else c %}{% endfor %}", "{{ a if b else c if }}",
                // map and array literals next to the delimiters
                "{{ {\"a\": {\"b\": 1}} }}", "{{ {\"a\": {\"b\": 1} } }}", "{{{}}}", "{{ {\"a\": 1,} }}", "{{ {,} }}", "{{ {\"a\" 1} }}", "{{ {a: 1} }}", "{{ {1: 2, 1: 3} }}", "{{ {\"a\": } }}", "{{ [1,,2] }}", "{{ [,] }}", "{{ [1 2] }}",
                "{{ [[[1]]] }}", "{{ [[1], [[2]]] }}", "{{ {\"a\":", "{{ {\"a\": 1,", "{{ {", "{{ [", "{{ [1,", "{{ {\"a\": [", "{{ {\"a\": {\"b\": {\"c\": {\"d\": {\"e\": 1}}}}} }}", "{{ {}}}", "{{ {} }}}", "{{ [{}] }}", "{{ {\"k\": []}[\"k\"] }}",
                "{{ {1.5: 1, none: 2, [1]: 3} }}", "{{ {\"a\": 1}.a }}", "{{ [1, 2][0] }}", "{{ [1, 2,] }}", "{{ [...] }}", "{{ {...} }}", "{{ {...a,} }}",
                // comments and raw blocks that look almost right
                "{% raw x %}a{% endraw %}", "{% raw %}a", "{% raw %}a{% endraw x %}", "{%raw%}a{%endraw%}", "{%- raw-%}a{%-endraw-%}", "{# {% raw %} #}a{% endraw %}", "{% raw %}{# c #}{% endraw %}", "{{ \"{#\" }}", "{{ \"#}\" }}{# c #}",
                "{# c", "{# c #", "{#", "{% raw %}{% raw %}{% endraw %}{% endraw %}", "{% raw %}{% endraw", "{% raw %}{%", "{% raw", "{# {# nested #} #}", "{#}", "{#{#}#}", "{% raw %}\u{e9}{% endraw %}\u{e9}",
                // block structure errors
                "{% block a %}{% block a %}{% endblock %}{% endblock %}", "{% block a %}{% endblock %}{% block a %}{% endblock %}", "{% block a %}{% endblock b %}", "{% block %}{% endblock %}", "{% block if %}{% endblock %}",
                "{% block 1 %}{% endblock %}", "{% block \"a\" %}{% endblock %}", "{% for x in y %}{% block a %}{% endblock %}{% endfor %}", "{% if x %}{% block a %}{% endblock %}{% endif %}",
                "{% component Cb() %}{% block a %}{% endblock %}{% endcomponent Cb %}", "{% block \u{e9} %}{% endblock %}", "{% block a %}{% block b %}{% endblock a %}{% endblock b %}", "{% block a %}{% endblock a b %}", "{% block a b %}{% endblock %}",
                "{% block a %}{% endblock %}{% block b %}{% endblock %}{% block c %}{% endblock %}{% block d %}{% endblock %}{% block e %}{% endblock %}{% block f %}{% endblock %}{% block g %}{% endblock %}{% block h %}{% endblock %}{% block b %}{% endblock %}",
                "{% extends \"x\" %}{% block a %}{% block a %}{{ super() }}{% endblock %}{% endblock %}", "{% block a %}", "{% block a %}{% endblock",
                "{% block a %}{% block b %}x{% endblock %}{% endblock b %}", "{% block a %}{% block b %}{% endblock b %}{% endblock b %}", "{% block a %}{% endblock %}{% block c %}{% endblock a %}",
                "{% block a %}{% block b %}{% block c %}{% endblock %}{% endblock %}{% endblock c %}", "{% block a %}{% block b %}{% endblock %}{% block c %}{% endblock b %}{% endblock %}", "{% block a %}{% endblock a %}{% endblock a %}",
                // whitespace-control markers next to things made of dashes
                "{%--%}", "{{--1}}", "{{- -1 -}}", "{{- -}}", "{#--#}", "{#- -#}", "{%- raw -%}-{%- endraw -%}", "-", "---", "{{-1}}", "{{ 1 -}}-{{- 1 }}", "{%-if true-%}-{%-endif-%}", "{{--}}", "{%-%}",
                // unknown and legacy tag names, stray closers, empty tags
                "{% macro m() %}x{% endmacro %}", "{% endmacro %}", "{% import \"a\" as b %}", "{% call m() %}", "{% spaceless %}x{% endspaceless %}", "{% now %}", "{% verbatim %}{% endverbatim %}", "{% load x %}",
                "{% with x=1 %}{% endwith %}", "{% end %}", "{% endfor %}", "{% endif %}", "{% endblock %}", "{% endblock b %}", "{% endfilter %}", "{% endset %}", "{% endcomponent %}", "{% endraw %}", "{% else %}", "{% elif x %}",
                "{% if a %}{% endfor %}", "{% for a in b %}{% endif %}", "{% block b %}{% endfilter %}", "{% true %}", "{% 1 %}", "{% in %}", "{%%}", "{% - %}", "{%- -%}", "{% if %}", "{% for %}", "{% set %}", "{% block %}", "{% filter %}",
                "{% component %}", "{% extends %}x", "{% If x %}{% EndIf %}", "{% \u{e9}l\u{e9}ment %}", "{% super() %}", "{% body %}", "{{ }}", "{{- -}}", "{# #}", "{#-#}",
                // component parameter defaults and annotations of every literal kind, signed
                "{% component D1(x=-1) %}{% endcomponent D1 %}", "{% component D2(x=-\"a\") %}{% endcomponent D2 %}", "{% component D3(x=-true) %}{% endcomponent D3 %}", "{% component D4(x=-none) %}{% endcomponent D4 %}",
                "{% component D5(x=-[1]) %}{% endcomponent D5 %}", "{% component D6(x: map = -{}) %}{% endcomponent D6 %}", "{% component D7(x=--1) %}{% endcomponent D7 %}", "{% component D8(x=- 1.5) %}{% endcomponent D8 %}",
                "{% component D9(x=+1) %}{% endcomponent D9 %}", "{% component D10(x=1+1) %}{% endcomponent D10 %}", "{% component D11(x=(1)) %}{% endcomponent D11 %}", "{% component D12(x=a) %}{% endcomponent D12 %}",
                "{% component D13(x=[) %}{% endcomponent D13 %}", "{% component D14(x: integer = \"s\") %}{% endcomponent D14 %}", "{% component D15(x: float = -9223372036854775809) %}{% endcomponent D15 %}",
                "{% component D16(x={\"a\": -1}, y=[-1, -\"b\"]) %}{% endcomponent D16 %}", "{% component D17(x=-) %}{% endcomponent D17 %}", "{% component D18(x=-", "{{ <D1 x={-\"a\"}/> }}", "{{ <D1 x=-1/> }}",
                // argument and placement rules of extends / include
                "a{% extends \"x\" %}", "{% extends \"x\" %}{% extends \"y\" %}", "{% block b %}{% extends \"x\" %}{% endblock %}", "{% if a %}{% extends \"x\" %}{% endif %}", "{% extends x %}", "{% extends 1 %}",
                "{% extends \"a\" ~ \"b\" %}", "{% extends \"\" %}", "{% extends `x` %}", "{% extends \"x\" y %}", "{% extends", "{% extends %}", "{% include x %}", "{% include 1 %}", "{% include \"a\" ~ \"b\" %}", "{% include \"\" %}",
                "{% include \"x\" y %}", "{% include", "{% include %}", "{% include \"a\\nb\" %}", "{% for a in b %}{% extends \"x\" %}{% endfor %}", "{% component C2() %}{% extends \"x\" %}{% endcomponent C2 %}", "{% include 'x' | upper %}",
                // keyword-argument lists
                "{{ a | truncate(length=1, length=2) }}", "{{ a | truncate(1) }}", "{{ a | truncate(length=) }}", "{{ a | truncate(=1) }}", "{{ a | truncate(length 1) }}", "{{ a | truncate(length=1,) }}", "{{ a | truncate(,length=1) }}",
                "{{ a | truncate(length=1,,end=2) }}", "{{ a | truncate(in=1) }}", "{{ a | truncate(not=2, true=3) }}", "{{ a | replace(from=range(end=range(end=1) | length) | length, to={\"k\": [1]}) }}", "{{ x is divisible_by(divisor=1) and y }}",
                "{{ x is divisible_by(divisor=1, divisor=2) }}", "{{ x is divisible_by( }}", "{{ a | truncate(", "{{ range(end=1, end=2) }}", "{{ range(1) }}", "{{ range(end=1 }}", "{{ <C3 a=1 a=2/> }}", "{{ <C3 a= /> }}", "{{ <C3 =1/> }}", "{{ <C3 a=1", "{{ <C3 {...}/> }}",
                "{{ a | truncate(length=1, end=2, a=3, b=4, c=5, d=6, e=7, f=8, g=9, h=10, i=11, j=12, k=13, l=14, m=15, n=16, o=17, p=18) }}", "{{ a | upper() }}", "{{ a | upper( ) | lower }}", "{{ a | upper(length) }}",
                "{% if true %}{% if false %}{% endif %}{% endif %}", "{% for a in b %}{% if a %}{% break %}{% endif %}{% endfor %}", "{% for a in b %}{% continue %}{% endfor %}", "{{ a.b?.c }}", "{{ a?[0] }}",
                "{{ \"\" ~ \"\" }}", "{{ [][0] }}", "{{ {}[\"a\"] }}", "{{ \"\"[0:0] }}", "{{ x | default(value=[]) }}", "{% component E() %}{% endcomponent E %}{{ <E/> }}", "{% component F(a=[]) %}{{ a }}{% endcomponent F %}{{ <F a={[...[1]]}/> }}",
            ];
            let mut t = String::new();
            // (`depth` doubles as the number of shapes when called from the shapes mode)
            let count = if depth >= 1000 { depth - 1000 } else { rng.range(1, 3) };
            for _ in 0..count {
                t.push_str(rng.pick(SHAPES));
            }
            let ph = ["\u{e000}", "\u{e001}", "\u{e002}", "\u{e003}", "\u{e004}", "\u{e005}"];
            let from = ["{%", "%}", "{{", "}}", "{#", "#}"];
            let to = [&d.bs, &d.be, &d.vs, &d.ve, &d.cs, &d.ce];
            for i in 0..6 {
                t = t.replace(from[i], ph[i]);
            }
            for i in 0..6 {
                t = t.replace(ph[i], to[i].as_str());
            }
            t
        }
        // token shapes at the edges of what the lexer accepts (numbers around the i64 range,
        // odd floats, quote styles, a backslash last)
        _ => {
            const TOKENS: &[&str] = &[
                "9223372036854775807", "9223372036854775808", "-9223372036854775808", "-9223372036854775809", "- 9223372036854775808",
                "18446744073709551616", "340282366920938463463374607431768211456", "00012", "1.", ".5", "1.2.3", "1e5", "1E-5", "1_000", "0x1F",
                "1.7976931348623157e309", "0.000000000000000000000000000000000000000000001", "123456789012345678901234567890.123456789012345678901234567890",
                "a1.b2", "a.1", "a.1.2", "a1b2c3", "1a", "\"it's `x`\"", "'say \"hi\" `x`'", "`both ' and \"`", "\"ends with backslash\\\"", "\"\\",
                "\"unterminated", "'\u{e9}\\'", "-", "--1", "- -1", "not not true", "1e", "1e+", "1e-", "1e999", "1E+400", "1..2", "1...2", "0b101", "0o17", "0X1f", "1__0", "_1", "1_", "a.1e5", "a.0x1", "1\u{e9}", "1\u{1F389}", "1.\u{e9}", "1e5e5", "1.5.5e1", "01.10", "9e18", "9223372036854775807.0", "-0", "-0.0", "+1", "1 000",
                "1234567890123456789012345678901234567890123456789012345678901234567890123456789012345678901234567890123456789012345678901234567890123456789012345678901234567890123456789012345678901234567890123456789012345678901234567890123456789012345678901234567890123456789012345678901234567890123456789012345678901234567890123456789012345678901234567890123456789012345678901234567890123456789012345678901234567890", "\u{e9}t\u{e9}", "\u{65e5}\u{672c}.x", "\u{df}", "\u{1c5}", "a\u{301}b", "a\u{200d}b", "_", "__tera", "__tera_context", "a._b", "a.9z", "True", "NONE", "In", "nOt x", "a\u{e9}", "x\u{1F389}", "a.\u{e9}", "a[\u{e9}]", "\u{feff}a", "a\u{a0}b", "1 -", "1 +", "(", ")", "1 2", "a b", "a..b", "a.", ".a", "a[", "a[]", "a[:]", "a[::]", "a?.", "a?[",
            ];
            if rng.chance(1, 3) {
                // a string literal assembled from escape pieces: valid and invalid escapes, a
                // backslash before a multi-byte character, before the closing quote, last
                const PIECES: &[&str] = &["a", " ", "\\\\", "\\n", "\\t", "\\\"", "\\'", "\\/", "\\x", "\\\u{e9}", "\u{e9}", "\\\u{1F389}", "\u{1F389}", "\\", "\\\u{2028}", "\\0", "\\u00e9", "\n"];
                let q = rng.pick(&["\"", "'", "`"]);
                let mut lit = String::from(q);
                for _ in 0..rng.range(1, 6) {
                    lit.push_str(rng.pick(PIECES));
                }
                if !rng.chance(1, 8) {
                    lit.push_str(q);
                }
                return format!("{} {}{} {}", d.vs, lit, rng.pick(&["", " | upper", " ~ 'x'", "[0]"]), d.ve);
            }
            let t = rng.pick(TOKENS);
            // (not through sanitize_inner: these are meant to be what they are)
            format!("{} {} {}", d.vs, t, d.ve)
        }
    }
}

/// Long *flat* chains (left-deep ASTs): no nesting limit applies to them.
pub fn chain_source(kind: usize, n: usize, d: &Delims) -> String {
    let tag = |s: &str| format!("{} {} {}", d.bs, s, d.be);
    let var = |s: &str| format!("{} {} {}", d.vs, s, d.ve);
    match kind % 7 {
        0 => var(&format!("1{}", " + 1".repeat(n))),
        1 => var(&format!("a{}", ".b".repeat(n))),
        2 => var(&format!("a{}", " | upper".repeat(n))),
        3 => format!("{}x{}{}", tag("if a"), format!("{}y", tag("elif a")).repeat(n), tag("endif")),
        4 => var(&format!("'a'{}", " ~ 'a'".repeat(n))),
        5 => var(&format!("a{}", " and a".repeat(n))),
        _ => var(&format!("a{}", "[0]".repeat(n))),
    }
}

pub fn generate(seed: u64, tier: &str, _property: &str) -> DiskScenario {
    let rng = Rng::new(seed);
    let mut cfg = GenCfg::swarm(&rng);
    cfg.delims = Delims::set(rng.below(Delims::N_SETS));
    cfg.prefixes.clear();
    cfg.n_templates = rng.range(1, 4);
    cfg.unicode_text = rng.chance(3, 4);
    cfg.custom = false;
    cfg.stmts_per_body = cfg.stmts_per_body.max(2);
    let config = Config { autoescape: None, prefixes: vec![], delims: cfg.delims.clone(), global: SCtx::default(), custom: false };
    let delims = cfg.delims.clone();
    let grng = rng.fork(9);
    let mut g = Gen::new(&grng, cfg);
    for i in 0..g.cfg.n_templates {
        g.gen_template(i);
    }
    let mut templates = g.world.templates.clone();
    let (file_name, mut source) = templates.pop().unwrap();
    let mut crash_shape = String::new();
    let mut few_variants = false;
    let mode = rng.below(40);
    if mode < 8 {
        source = nest_source(rng.below(NEST_KINDS), rng.range(1, 90), &rng, &delims);
    } else if mode < 12 {
        // deep: way beyond every limit; only a handful of variants
        let depth = rng.pick(&[100usize, 300, 1000, 3000, 8000, 20000]);
        source = nest_source(rng.below(NEST_KINDS), depth, &rng, &delims);
        few_variants = true;
    } else if mode < 14 {
        // flat chains below the length where the unmodified engine overflows (finding F6)
        source = chain_source(rng.below(7), rng.range(5, 300), &delims);
        few_variants = true;
    } else if mode == 14 {
        source = chain_source(rng.below(7), rng.range(4000, 9000), &delims);
        crash_shape = "left-deep-chain".to_string();
        few_variants = true;
    } else if mode < 20 {
        // shapes mode: 3-8 of the unusual-but-small constructs in a row (kind 24), through the
        // full fault closure
        source = nest_source(24, 1000 + rng.range(3, 8), &rng, &delims);
    } else if rng.chance(1, 3) {
        // multi-byte characters right next to delimiters
        source = format!("\u{e9}{}\u{1F389}{} \"\u{e9}\u{4e2d}\" {}\u{ae}\u{a9}{}\u{e9}{}", source, delims.vs, delims.ve, delims.cs, delims.ce);
    }
    // odd delimiter configurations: the source was generated under the run's regular set; its
    // delimiters are rewritten textually (what the text then *means* is irrelevant: Ok or Err)
    let mut odd_delims = None;
    let mut base_templates = templates;
    let mut config = config;
    if crash_shape.is_empty() && rng.chance(1, 6) {
        let pick = |r: &Rng| r.pick(ODD_DELIMS).to_string();
        let mut od = Delims::new(&pick(&rng), &pick(&rng), &pick(&rng), &pick(&rng), &pick(&rng), &pick(&rng));
        if rng.chance(1, 3) {
            // end delimiters equal to start delimiters / to each other
            od.be = od.bs.clone();
            if rng.chance(1, 2) {
                od.ve = od.vs.clone();
                od.ce = od.cs.clone();
            }
        }
        let rewrite = |t: &str| {
            // through private-use placeholders so that replacements do not feed each other
            let ph = ["\u{e000}", "\u{e001}", "\u{e002}", "\u{e003}", "\u{e004}", "\u{e005}"];
            let from = [&delims.bs, &delims.be, &delims.vs, &delims.ve, &delims.cs, &delims.ce];
            let to = [&od.bs, &od.be, &od.vs, &od.ve, &od.cs, &od.ce];
            let mut x = t.to_string();
            for i in 0..6 {
                x = x.replace(from[i].as_str(), ph[i]);
            }
            for i in 0..6 {
                x = x.replace(ph[i], to[i].as_str());
            }
            x
        };
        source = rewrite(&source);
        for t in base_templates.iter_mut() {
            t.1 = rewrite(&t.1);
        }
        config.delims = Delims::default();
        odd_delims = Some(od);
    }
    let templates = base_templates;
    let file_name = if rng.chance(1, 8) { rng.pick(ODD_NAMES).to_string() } else if rng.chance(1, 40) { "n".repeat(5000) } else { file_name };
    if source.len() > 700 && !few_variants {
        let mut cut = 700;
        while !source.is_char_boundary(cut) {
            cut -= 1;
        }
        source.truncate(cut);
    }
    DiskScenario {
        config,
        hash_base: rng.next_u64(),
        base: templates,
        file_name,
        source: source.clone(),
        variants: if few_variants {
            // the original plus cuts at a few seeded offsets
            let b = source.as_bytes();
            let mut v = vec![("original".to_string(), crate::sval::hex(b))];
            for _ in 0..6 {
                let mut n = rng.below(b.len().max(1));
                while !source.is_char_boundary(n) {
                    n -= 1;
                }
                v.push(("truncation".to_string(), crate::sval::hex(&b[..n])));
            }
            Variants::Explicit(v)
        } else {
            Variants::Tier { thorough: tier == "thorough", seed: rng.next_u64() }
        },
        context: gen_context(&rng, 0),
        via_file_every: 8,
        crash_shape,
        sacrificial: false,
        odd_delims,
    }
}

fn variants_of(sc: &DiskScenario) -> Vec<(&'static str, Vec<u8>)> {
    let src = sc.source.as_bytes();
    let mut out: Vec<(&'static str, Vec<u8>)> = Vec::new();
    match &sc.variants {
        Variants::Explicit(list) => {
            for (k, h) in list {
                let kind: &'static str = match k.as_str() {
                    "truncation" => "truncation",
                    "bit_flip" => "bit_flip",
                    "nul_fill" => "nul_fill",
                    "duplicated_block" => "duplicated_block",
                    "bom" => "bom",
                    "crlf" => "crlf",
                    "long_line" => "long_line",
                    "layout" => "layout",
                    "tiny" => "tiny",
                    "long_prefix" => "long_prefix",
                    "many_lines" => "many_lines",
                    _ => "original",
                };
                out.push((kind, crate::sval::unhex(h)));
            }
        }
        Variants::Tier { thorough, seed } => {
            let rng = Rng::new(*seed);
            out.push(("original", src.to_vec()));
            // every truncation offset — exhaustive
            for n in 0..src.len() {
                out.push(("truncation", src[..n].to_vec()));
            }
            // bit flips
            let offsets: Vec<usize> = if *thorough && src.len() <= 512 { (0..src.len()).collect() } else { (0..64.min(src.len())).map(|_| rng.below(src.len().max(1))).collect() };
            for o in offsets {
                if o >= src.len() {
                    continue;
                }
                for bit in 0..8 {
                    let mut b = src.to_vec();
                    b[o] ^= 1 << bit;
                    out.push(("bit_flip", b));
                }
            }
            // unusual but legal file contents: byte-order mark, CRLF line ends, one very long
            // line, a lone BOM, trailing NULs, a truncated BOM
            let mut bom = vec![0xEF, 0xBB, 0xBF];
            bom.extend_from_slice(src);
            out.push(("bom", bom));
            out.push(("bom", vec![0xEF, 0xBB, 0xBF]));
            out.push(("bom", vec![0xEF, 0xBB]));
            let mut crlf = Vec::with_capacity(src.len() + 16);
            for b in src {
                if *b == b'\n' {
                    crlf.push(b'\r');
                }
                crlf.push(*b);
            }
            crlf.extend_from_slice(b"\r\n");
            out.push(("crlf", crlf));
            let mut long = src.to_vec();
            long.extend(std::iter::repeat(b'x').take(70_000));
            out.push(("long_line", long));
            // the same text laid out differently (what error reports have to cope with): tabs for
            // spaces, lone CR line ends, blank lines, wide / zero-width / combining characters in
            // the text, no trailing newline — whole and cut at a few seeded offsets so that
            // there is an error to report
            if let Ok(text) = std::str::from_utf8(src) {
                let layouts: [String; 5] = [
                    text.replace(' ', "\t"),
                    text.replace('\n', "\r"),
                    text.replace('\n', "\n\n\n"),
                    text.replace('a', "\u{ff41}").replace('e', "e\u{301}").replace(' ', " \u{200b}"),
                    format!("\n\n{}", text.trim_end()),
                ];
                for l in layouts.iter() {
                    out.push(("layout", l.as_bytes().to_vec()));
                    for _ in 0..3 {
                        let mut n = rng.below(l.len().max(1));
                        while !l.is_char_boundary(n) {
                            n -= 1;
                        }
                        out.push(("layout", l.as_bytes()[..n].to_vec()));
                    }
                }
            }
            // size classes: the whole source pushed beyond column 65 535 of its first line, and
            // beyond line 65 535 — whole and cut at a few seeded offsets, so that the errors to
            // report sit at such positions
            if src.len() <= 400 {
                for (kind, prefix) in [("long_prefix", vec![b'x'; 66_000]), ("many_lines", vec![b'\n'; 66_000])] {
                    let mut whole = prefix.clone();
                    whole.extend_from_slice(src);
                    out.push((kind, whole));
                    for _ in 0..2 {
                        let mut n = rng.below(src.len().max(1));
                        while !std::str::from_utf8(&src[..n]).is_ok() && n > 0 {
                            n -= 1;
                        }
                        let mut cut = prefix.clone();
                        cut.extend_from_slice(&src[..n]);
                        out.push((kind, cut));
                    }
                }
            }
            // very short and oddly terminated files
            for tiny in [&[0xEFu8][..], &[0xEF, 0xBB, 0xBF, b'a'], b"\r", b"\r\n", b"\n", b"\n\n", b"a\r", &[0x1a], &[0xEF, 0xBB, 0xBF, b'\r', b'\n'], &[0xFE, 0xFF], &[0xFF, 0xFE, b'a', 0]] {
                out.push(("tiny", tiny.to_vec()));
            }
            for tail in [&[0x1au8][..], b"\r", b"\n", b"\r\n\r\n", &[0xEF, 0xBB, 0xBF], &[0xC3], &[0xF0, 0x9F]] {
                let mut b = src.to_vec();
                b.extend_from_slice(tail);
                out.push(("tiny", b));
            }
            let mut nuls = src.to_vec();
            nuls.extend_from_slice(&[0, 0, 0, 0]);
            out.push(("nul_fill", nuls));
            for _ in 0..(if *thorough { 32 } else { 8 }) {
                if src.is_empty() {
                    break;
                }
                let a = rng.below(src.len());
                let e = (a + rng.range(1, 24)).min(src.len());
                let mut b = src.to_vec();
                for x in &mut b[a..e] {
                    *x = 0;
                }
                out.push(("nul_fill", b));
                let mut b2 = src[..e].to_vec();
                b2.extend_from_slice(&src[a..e]);
                b2.extend_from_slice(&src[e..]);
                out.push(("duplicated_block", b2));
            }
        }
    }
    out
}

fn light_fp(t: &Tera, ctx: &Context) -> Result<u64, String> {
    let mut f = Fnv::new();
    let mut names: Vec<String> = t.get_template_names().map(|s| s.to_string()).collect();
    names.sort();
    for n in names {
        f.str(&n);
        match catch(|| t.render(&n, ctx)) {
            Ok(r) => f.str(&canon(&r)),
            Err(p) => return Err(p),
        }
    }
    Ok(f.get())
}

pub fn execute(sc: &DiskScenario, stats: &mut Stats) -> Outcome {
    let mut out = Outcome::default();
    let mut log = Fnv::new();
    if !sc.crash_shape.is_empty() && !sc.sacrificial {
        stats.inc("probe_f6_shape_source_generated");
        let mut d = sc.clone();
        d.sacrificial = true;
        out.deferred.push(serde_json::to_value(crate::Scn::Disk(d)).unwrap());
        out.fingerprint = crate::rng::fnv1a(sc.source.as_bytes());
        return out;
    }
    ahash::sim::reset(Mode::PerInstance, sc.hash_base);
    let mut base = new_tera(&sc.config);
    if let Some(od) = &sc.odd_delims {
        stats.inc("fault_configured_odd_delimiters");
        match catch(|| base.set_delimiters(od.to_tera())) {
            Err(p) => {
                out.violations.push(Violation::new("C06", "panic-in-set_delimiters", format!("{:?}: {}", od, p)));
                return out;
            }
            Ok(Err(e)) => {
                let _ = format!("{} {:?}", e, e);
                stats.inc("odd_delimiters_refused");
            }
            Ok(Ok(())) => {
                stats.inc("fault_fired_odd_delimiters");
                if od.bs == od.be || od.vs == od.ve || od.cs == od.ce {
                    stats.inc("probe_start_delimiter_equals_end_delimiter");
                }
            }
        }
    }
    stats.inc("corpus_files");
    match catch(|| base.add_raw_templates(sc.base.iter().map(|(n, s)| (n.as_str(), s.as_str())))) {
        Err(p) => {
            out.violations.push(Violation::new("C06", "panic-in-registration", format!("base world: {}", p)));
            return out;
        }
        Ok(Err(_)) => {
            stats.inc("worlds_rejected");
            // still useful: register into an empty engine
            base = new_tera(&sc.config);
        }
        Ok(Ok(())) => {}
    }
    let ctx = sc.context.to_context();
    let base_fp = match light_fp(&base, &ctx) {
        Ok(f) => f,
        Err(p) => {
            out.violations.push(Violation::new("C07", "panic-in-render", format!("base world: {}", p)));
            return out;
        }
    };
    let root: PathBuf = {
        let b = if std::path::Path::new("/dev/shm").is_dir() { PathBuf::from("/dev/shm") } else { std::env::temp_dir() };
        let p = b.join(format!("terasim-d-{}-{:x}", std::process::id(), sc.hash_base));
        let _ = std::fs::remove_dir_all(&p);
        std::fs::create_dir_all(&p).expect("tmpfs root");
        p
    };
    let path = root.join("f.tpl");
    let mut t = base.clone();
    let src_hash = crate::rng::fnv1a(sc.source.as_bytes());
    let budget = 20_000_000u64;

    for (vi, (kind, bytes)) in variants_of(sc).into_iter().enumerate() {
        stats.inc("variants");
        stats.inc(&format!("fault_configured_{}", kind));
        let as_str = std::str::from_utf8(&bytes).ok();
        if as_str.is_none() {
            stats.inc("probe_variant_not_utf8");
        }
        let via_file = as_str.is_none() || vi % sc.via_file_every.max(1) == 0 || matches!(kind, "bom" | "crlf" | "long_line" | "tiny") || (kind == "layout" && vi % 2 == 0);
        engine::set_step_limit(engine::steps() + budget);
        let res: Result<Result<(), tera::Error>, String> = if via_file {
            std::fs::write(&path, &bytes).expect("tmpfs write");
            stats.inc("via_add_template_file");
            catch(|| t.add_template_file(&path, Some(&sc.file_name)))
        } else {
            stats.inc("via_add_raw_template");
            catch(|| t.add_raw_template(&sc.file_name, as_str.unwrap()))
        };
        engine::clear_step_limit();
        let loc = || format!("variant {} ({}, {} bytes, via {})", vi, kind, bytes.len(), if via_file { "file" } else { "raw" });
        match res {
            Err(p) => {
                out.violations.push(Violation::new("C06", "panic-in-registration", format!("{}: {}", loc(), p)).with_sig("kind", kind));
                t = base.clone();
                continue;
            }
            Ok(Err(e)) => {
                stats.inc("variants_rejected");
                stats.inc(&format!("fault_fired_{}", kind));
                let shown = catch(|| format!("{} {:?}", e, e));
                if let Err(p) = shown {
                    out.violations.push(Violation::new("C06", "error-display-panics", format!("{}: {}", loc(), p)));
                }
                if as_str.is_none() && !format!("{}", e).contains("Failed to read") {
                    out.violations.push(Violation::new("C06", "non-utf8-file-not-a-read-error", format!("{}: {}", loc(), engine::trunc(&format!("{}", e)))));
                }
                // registry unchanged
                match light_fp(&t, &ctx) {
                    Ok(f) if f == base_fp => {}
                    Ok(_) => {
                        out.violations.push(Violation::new("C10", "failed-call-changed-state", format!("{}: registry differs after a refused variant", loc())));
                        t = base.clone();
                    }
                    Err(p) => {
                        out.violations.push(Violation::new("C07", "panic-in-render", format!("{}: after refused variant: {}", loc(), p)));
                        t = base.clone();
                    }
                }
                log.u64(0);
            }
            Ok(Ok(())) => {
                stats.inc("variants_accepted");
                if as_str.is_none() {
                    out.violations.push(Violation::new("C06", "accepted-non-utf8-file", loc()));
                }
                // an accepted variant must render without panic / crash / non-UTF-8 output
                engine::set_step_limit(engine::steps() + budget);
                let r = catch(|| t.render(&sc.file_name, &ctx));
                engine::clear_step_limit();
                let hit = engine::step_limit_hit();
                match r {
                    Err(p) => {
                        let inv = if hit { "render-exceeds-step-budget" } else { "panic-in-render" };
                        out.violations.push(Violation::new("C07", inv, format!("{}: {}", loc(), p)));
                    }
                    Ok(r) => {
                        if let Some(v) = engine::take_end_state_violation() {
                            out.violations.push(Violation::new("C07", "end-state-not-empty", format!("{}: {:?}", loc(), v)));
                        }
                        log.str(&canon(&r));
                    }
                }
                if vi % 4 == 0 {
                    if let Some(s) = as_str {
                        stats.inc("via_render_str");
                        engine::set_step_limit(engine::steps() + budget);
                        let r = catch(|| t.render_str(s, &ctx, true));
                        engine::clear_step_limit();
                        if let Err(p) = r {
                            out.violations.push(Violation::new("C06", "panic-in-render_str", format!("{}: {}", loc(), p)));
                        }
                        let _ = engine::take_end_state_violation();
                    }
                }
                t = base.clone();
                log.u64(1);
            }
        }
        if bytes != sc.source.as_bytes() && !bytes.is_empty() {
            let mut f = Fnv::new();
            f.u64(src_hash);
            f.str(kind);
            f.u64(vi as u64);
            stats.distinct.insert(f.get());
        }
        if out.violations.len() > 6 {
            break;
        }
    }
    let _ = std::fs::remove_dir_all(&root);
    stats.sample(4, || serde_json::json!({"file": sc.file_name, "delims": sc.config.delims.bs, "bytes": sc.source.len(), "source": engine::trunc(&sc.source), "base_templates": sc.base.len()}));
    out.fingerprint = log.get();
    out
}

pub fn shrink_candidates(sc: &DiskScenario) -> Vec<DiskScenario> {
    let mut out = Vec::new();
    if !sc.base.is_empty() {
        for i in 0..sc.base.len() {
            let mut c = sc.clone();
            c.base.remove(i);
            out.push(c);
        }
    }
    // pin single variants
    if let Variants::Tier { .. } = sc.variants {
        let vs = variants_of(sc);
        // bisect: first half / second half, then singles near the front
        let half = vs.len() / 2;
        for range in [0..half, half..vs.len()] {
            let mut c = sc.clone();
            c.variants = Variants::Explicit(vs[range].iter().map(|(k, b)| (k.to_string(), crate::sval::hex(b))).collect());
            out.push(c);
        }
    } else if let Variants::Explicit(list) = &sc.variants {
        if list.len() > 1 {
            let half = list.len() / 2;
            for range in [0..half, half..list.len()] {
                let mut c = sc.clone();
                c.variants = Variants::Explicit(list[range].to_vec());
                out.push(c);
            }
        }
    }
    if !sc.context.0.is_empty() {
        let mut c = sc.clone();
        c.context.0.clear();
        out.push(c);
    }
    out
}
