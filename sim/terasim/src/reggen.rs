//! History generator for regsim family *general* (C10, C07): valid worlds registered through
//! varied histories, then replacements, injected invalid operations of every kind (direct and
//! indirect), reconfiguration, clone, restart and — in a third of the runs — file/glob loading
//! against the simulated disk with storage and TOCTOU faults (DESIGN.md §5.2).
use crate::engine::{CompProbe, Config, Probe};
use crate::gen::{Delims, Gen, GenCfg, COMP_NAMES};
use crate::regsim::{DiskAction, DiskFault, Op, OpNote, RegScenario};
use crate::rendersim::comp_probe_ctx;
use crate::rng::Rng;
use crate::sval::{gen_context, gen_global_context, hex, SVal};
use std::collections::BTreeSet;

fn hx(s: &str) -> String {
    hex(s.as_bytes())
}

/// Storage faults on file content (DESIGN.md §5.2 "disk faults").
pub fn corrupt(bytes: &[u8], rng: &Rng) -> (Vec<u8>, &'static str) {
    let mut b = bytes.to_vec();
    match rng.below(7) {
        0 => {
            let n = if b.is_empty() { 0 } else { rng.below(b.len()) };
            b.truncate(n);
            (b, "torn_write")
        }
        1 if !b.is_empty() => {
            let i = rng.below(b.len());
            b[i] ^= 1 << rng.below(8);
            (b, "bit_flip")
        }
        2 if !b.is_empty() => {
            let a = rng.below(b.len());
            let e = (a + rng.range(1, 16)).min(b.len());
            for x in &mut b[a..e] {
                *x = 0;
            }
            (b, "nul_filled_range")
        }
        3 => (Vec::new(), "zero_length"),
        4 => {
            b.extend_from_slice(&[0xff, 0xfe, 0xc3]);
            (b, "non_utf8")
        }
        5 if b.len() > 4 => {
            // a block written twice
            let a = rng.below(b.len() - 1);
            let e = (a + rng.range(1, 32)).min(b.len());
            let dup = b[a..e].to_vec();
            let mut nb = b[..e].to_vec();
            nb.extend_from_slice(&dup);
            nb.extend_from_slice(&b[e..]);
            (nb, "duplicated_block")
        }
        _ => {
            let n = if b.is_empty() { 0 } else { rng.below(b.len()) };
            b.truncate(n);
            (b, "torn_write")
        }
    }
}

struct H<'a, 'b> {
    rng: &'a Rng,
    g: Gen<'b>,
    ops: Vec<Op>,
    notes: Vec<OpNote>,
    /// templates whose *current* source is not the generator's picture any more
    regenerated: BTreeSet<usize>,
    /// current source per template index as last sent to the engine in a valid op
    current: Vec<String>,
}

impl<'a, 'b> H<'a, 'b> {
    fn push(&mut self, op: Op, invalid: Option<&str>, replaces_dependency: bool) {
        self.ops.push(op);
        self.notes.push(OpNote { invalid: invalid.map(|s| s.to_string()), replaces_dependency });
    }

    fn n(&self) -> usize {
        self.g.world.info.len()
    }

    fn name(&self, i: usize) -> String {
        self.g.world.info[i].name.clone()
    }

    fn has_dependents(&self, i: usize) -> bool {
        self.g.world.info.iter().any(|t| t.extends == Some(i) || t.includes.contains(&i))
            || self.g.world.comps.iter().any(|c| c.tpl == i)
    }

    /// An invalid (name, source) item plus its label; built only from facts that still hold.
    fn invalid_item(&mut self) -> Option<((String, String), &'static str)> {
        let n = self.n();
        let d = self.g.cfg.delims.clone();
        let tag = |inner: &str| format!("{} {} {}", d.bs, inner, d.be);
        let var = |inner: &str| format!("{} {} {}", d.vs, inner, d.ve);
        let x = self.rng.below(n);
        let fresh = format!("zz_new{}.html", self.rng.below(3));
        let kind = self.rng.below(16);
        Some(match kind {
            15 => {
                // `break` / `continue` must not cross a capture boundary: [capture >] for >
                // capture > break. Accepting it lets the jump skip EndCapture (seeded change C07c).
                let kw = self.rng.pick(&["break", "continue"]);
                let inner = match self.rng.below(3) {
                    0 => format!("{}a{}b{}", tag("set zzx"), tag(kw), tag("endset")),
                    1 => format!("{}a{}b{}", tag("filter upper"), tag(kw), tag("endfilter")),
                    _ => format!("{}a{}{}{}b{}", tag("set zzx"), tag("if true"), tag(kw), tag("endif"), tag("endset")),
                };
                let lp = format!("{}{}{}", tag("for zzi in [1, 2]"), inner, tag("endfor"));
                let whole = if self.rng.chance(1, 2) { format!("{}{}{}tail", tag("filter upper"), lp, tag("endfilter")) } else { format!("{}tail", lp) };
                ((self.name(x), format!("{}{}", self.current[x], whole)), "break-across-capture")
            }
            0 => {
                let mut s = self.current[x].clone();
                s.push_str(&tag("if"));
                ((self.name(x), s), "syntax-error")
            }
            1 => {
                // cut inside a tag
                let s = self.current[x].clone();
                let cut = s.rfind(d.bs.as_str()).map(|p| p + d.bs.len() + 1).filter(|p| *p < s.len() && s.is_char_boundary(*p));
                match cut {
                    Some(p) => ((self.name(x), s[..p].to_string()), "syntax-error"),
                    None => ((self.name(x), format!("{}{}", s, d.vs)), "syntax-error"),
                }
            }
            2 => ((fresh, format!("{}x", tag("extends \"nope.html\""))), "missing-parent"),
            3 => {
                // extends cycle through an existing child -> parent edge (never stale: regen keeps extends)
                let kids: Vec<usize> = (0..n).filter(|c| self.g.world.info[*c].extends.is_some()).collect();
                if kids.is_empty() {
                    ((self.name(x), tag(&format!("extends \"{}\"", self.name(x)))), "extends-cycle")
                } else {
                    let c = self.rng.pick(&kids);
                    let p = self.g.world.info[c].extends.unwrap();
                    ((self.name(p), tag(&format!("extends \"{}\"", self.name(c)))), "extends-cycle")
                }
            }
            4 => {
                // include cycle: i includes j (fact still true only if i was not regenerated)
                let pairs: Vec<(usize, usize)> = (0..n).filter(|i| !self.regenerated.contains(i)).flat_map(|i| self.g.world.info[i].includes.iter().map(move |j| (i, *j)).collect::<Vec<_>>()).collect();
                if pairs.is_empty() {
                    let guard = format!("{}{}{}", tag("if false"), tag(&format!("include \"{}\"", self.name(x))), tag("endif"));
                    ((self.name(x), guard), "include-cycle")
                } else {
                    let (i, j) = self.rng.pick(&pairs);
                    // never executed (`if false`), still an edge for the static check
                    let guard = format!("{}{}{}", tag("if false"), tag(&format!("include \"{}\"", self.name(i))), tag("endif"));
                    ((self.name(j), guard), "include-cycle")
                }
            }
            5..=9 => {
                // an unknown reference of one of the five kinds, written in one of the syntactic
                // positions where references can occur (C07: "wherever it is used")
                let (label, expr, stmt): (&'static str, Option<&str>, Option<String>) = match kind {
                    5 => ("unknown-include", None, Some(tag("include \"nope.html\""))),
                    6 => ("unknown-filter", Some("1 | no_such_filter"), None),
                    7 => ("unknown-test", Some("1 is no_such_test"), None),
                    8 => ("unknown-function", Some("no_such_fn()"), None),
                    _ => ("unknown-component", Some("<NoSuchComp/>"), None),
                };
                let u = self.rng.below(1000);
                // the reference as a statement
                let as_stmt = |e: Option<&str>, st: &Option<String>| -> String {
                    match (e, st) {
                        (Some(e), _) => var(e),
                        (_, Some(s)) => s.clone(),
                        _ => String::new(),
                    }
                };
                let pos = self.rng.below(11);
                let snippet = match (pos, expr) {
                    // plain statement at top level
                    (0, _) => as_stmt(expr, &stmt),
                    // inside a component definition body (+ a call, so it also runs)
                    (1, _) | (2, _) => format!("{}{}{}{}", tag(&format!("component ZZc{}()", u)), as_stmt(expr, &stmt), tag("endcomponent"), if pos == 1 { var(&format!("<ZZc{}/>", u)) } else { String::new() }),
                    // inside for / if bodies
                    (3, _) => format!("{}{}{}", tag("for zz in [1]"), as_stmt(expr, &stmt), tag("endfor")),
                    (4, _) => format!("{}{}{}{}", tag("if false"), tag("else"), as_stmt(expr, &stmt), tag("endif")),
                    // inside a filter section / set block body / component call body
                    (5, _) => format!("{}{}{}", tag("filter upper"), as_stmt(expr, &stmt), tag("endfilter")),
                    (6, _) => format!("{}{}{}", tag("set zzv"), as_stmt(expr, &stmt), tag("endset")),
                    // as the filter of a set-block filter chain / of a filter section
                    (7, Some(_)) if kind == 6 => format!("{}x{}", tag("set zzv | upper | no_such_filter"), tag("endset")),
                    (8, Some(_)) if kind == 6 => format!("{}x{}", tag("filter no_such_filter"), tag("endfilter")),
                    // inside an argument expression
                    (7, Some(e)) | (8, Some(e)) => var(&format!("1 | default(value={})", if kind == 9 { "2".to_string() } else { format!("({})", e) })),
                    (9, Some(e)) if kind != 9 => var(&format!("range(end=({}))", if kind == 7 { "3 if 1 is no_such_test else 2" } else { e })),
                    (10, Some(e)) => format!("{} {} {}", tag(&format!("set zzv = [{}, 2]", e)), var("zzv"), ""),
                    _ => as_stmt(expr, &stmt),
                };
                // make sure the reference really is in the snippet (argument forms for kind 9 fall back)
                let snippet = if (kind == 9 && !snippet.contains("NoSuchComp")) { var("<NoSuchComp/>") } else { snippet };
                ((self.name(x), format!("{}{}", self.current[x], snippet)), label)
            }
            10 => {
                // duplicate component at equal priority (priority 0 = no fallback prefix)
                let prio0: Vec<String> = self.g.world.comps.iter().filter(|c| !self.g.cfg.prefixes.iter().any(|p| self.g.world.info[c.tpl].name.starts_with(p.as_str()))).map(|c| c.name.clone()).collect();
                if prio0.is_empty() {
                    return None;
                }
                let cname = self.rng.pick(&prio0);
                ((fresh, format!("{}dup{}", tag(&format!("component {}()", cname)), tag("endcomponent"))), "duplicate-component")
            }
            11 => {
                let p = self.name(x);
                ((fresh, format!("{}{}orphan{}", tag(&format!("extends \"{}\"", p)), tag("block zz_orphan"), tag("endblock"))), "orphan-block")
            }
            12 => {
                // indirect: a parent loses every block while a child still overrides one
                let parents: Vec<usize> = (0..n).filter(|p| self.g.world.info.iter().any(|t| t.extends == Some(*p) && !t.own_blocks.is_empty())).collect();
                if parents.is_empty() {
                    return None;
                }
                let p = self.rng.pick(&parents);
                if self.g.world.info[p].extends.is_some() {
                    return None; // a grandparent may still define the block
                }
                ((self.name(p), "no blocks left".to_string()), "indirect-parent-loses-blocks")
            }
            13 => {
                // indirect: a component provider loses its components while callers remain
                let providers: Vec<usize> = (0..n).filter(|p| !self.g.world.info[*p].components.is_empty()).collect();
                if providers.is_empty() {
                    return None;
                }
                let p = self.rng.pick(&providers);
                ((self.name(p), "provider without components".to_string()), "indirect-provider-loses-components")
            }
            _ => {
                // nested 45 deep: the parser's recursion limit, not the stack, must stop it
                let mut s = String::new();
                for _ in 0..45 {
                    s.push_str(&tag("if true"));
                }
                ((fresh, s), "nesting-too-deep")
            }
        })
    }

    fn valid_replacement(&mut self) -> (usize, String) {
        let i = self.rng.below(self.n());
        let src = self.g.regen_template(i);
        (i, src)
    }
}

pub fn generate(seed: u64, tier: &str, property: &str) -> RegScenario {
    let rng = Rng::new(seed);
    let mut cfg = GenCfg::swarm(&rng);
    cfg.n_templates = rng.range(2, 8);
    let use_disk = rng.chance(1, 3);
    if use_disk {
        // names become file paths below tpl/: keep them plain
        cfg.prefixes.clear();
    }
    // the templates use the simulator's callbacks but the instance gets them only later: what was
    // refused for an unknown filter / function / test must be accepted afterwards, exactly as on a
    // fresh instance that had them from the start
    let late_custom = cfg.custom && rng.chance(1, 5);
    let config = Config {
        autoescape: match rng.below(6) {
            0 => Some(vec![]),
            1 => Some(vec![".txt".to_string(), ".html".to_string()]),
            _ => None,
        },
        prefixes: cfg.prefixes.clone(),
        delims: cfg.delims.clone(),
        global: gen_global_context(&rng),
        custom: cfg.custom && !late_custom,
    };
    let grng = rng.fork(7);
    let mut g = Gen::new(&grng, cfg);
    for i in 0..g.cfg.n_templates {
        g.gen_template(i);
    }
    let n = g.world.info.len();
    let current: Vec<String> = g.world.templates.iter().map(|t| t.1.clone()).collect();
    let mut h = H { rng: &rng, g, ops: vec![], notes: vec![], regenerated: BTreeSet::new(), current };
    let items: Vec<(String, String)> = h.g.world.templates.clone();

    // ---------------------------------------------------------------- initial registration
    let mut file_backed: Vec<bool> = vec![false; n];
    if use_disk {
        // files first (they never depend on manual templates) or manual first
        let cut = rng.range(1, n);
        let files_low = rng.chance(1, 2);
        for i in 0..n {
            file_backed[i] = if files_low { i < cut } else { i >= cut };
        }
        let write_files = |h: &mut H| {
            for i in 0..n {
                if file_backed[i] {
                    h.push(Op::DiskWrite { path: format!("tpl/{}", items[i].0), hex: hx(&items[i].1) }, None, false);
                }
            }
        };
        let manual: Vec<(String, String)> = (0..n).filter(|i| !file_backed[*i]).map(|i| items[i].clone()).collect();
        if files_low {
            write_files(&mut h);
            h.push(Op::LoadGlob { pattern: "tpl/**/*".into(), faults: vec![] }, None, false);
            if !manual.is_empty() {
                h.push(Op::AddBatch { items: manual }, None, false);
            }
        } else {
            if !manual.is_empty() {
                h.push(Op::AddBatch { items: manual }, None, false);
            }
            write_files(&mut h);
            h.push(Op::LoadGlob { pattern: "tpl/**/*".into(), faults: vec![] }, None, false);
        }
    } else {
        match rng.below(5) {
            0 => {
                let mut it = items.clone();
                rng.shuffle(&mut it);
                h.push(Op::AddBatch { items: it }, None, false);
            }
            1 => {
                for it in &items {
                    h.push(Op::AddRaw { name: it.0.clone(), source: it.1.clone() }, None, false);
                }
            }
            2 => {
                // random order, dependency failures retried
                let mut it = items.clone();
                rng.shuffle(&mut it);
                for r in 0..2 {
                    for x in &it {
                        h.push(Op::AddRaw { name: x.0.clone(), source: x.1.clone() }, if r == 0 { Some("dependency-not-yet-registered") } else { None }, r > 0);
                    }
                }
                h.push(Op::AddBatch { items: it }, None, true);
            }
            3 => {
                let mut it = items.clone();
                rng.shuffle(&mut it);
                let mut i = 0;
                while i < it.len() {
                    let k = rng.range(1, 4).min(it.len() - i);
                    h.push(Op::AddBatch { items: it[i..i + k].to_vec() }, Some("dependency-maybe-not-yet-registered"), false);
                    i += k;
                }
                h.push(Op::AddBatch { items: it }, None, true);
            }
            _ => {
                // dependency order in groups (all succeed)
                let mut i = 0;
                while i < items.len() {
                    let k = rng.range(1, 4).min(items.len() - i);
                    h.push(Op::AddBatch { items: items[i..i + k].to_vec() }, None, false);
                    i += k;
                }
            }
        }
    }

    if late_custom {
        // registration again, now with the callbacks (files are on disk already)
        let again: Vec<Op> = h.ops.iter().filter(|o| !matches!(o, Op::DiskWrite { .. })).cloned().collect();
        h.push(Op::RegisterCustom { via_from: rng.chance(1, 2) }, None, false);
        for o in again {
            h.push(o, None, true);
        }
    }

    // ---------------------------------------------------------------- the rest of the history
    let n_more = rng.range(3, if tier == "thorough" { 22 } else { 14 });
    let mut cloned = false;
    for _ in 0..n_more {
        let roll = rng.below(100);
        let prefixed: Vec<usize> = (0..n).filter(|i| h.g.cfg.prefixes.iter().any(|p| h.name(*i).starts_with(p.as_str()))).collect();
        if roll >= 96 && !prefixed.is_empty() && !use_disk {
            // a template that takes over a short name: the exact-name twin of a prefixed template
            // or the same base name under the other prefix. Includes, parents and component
            // providers that were reached through the prefix must now resolve exactly as in a
            // fresh instance, whichever twin was registered first.
            let i = rng.pick(&prefixed);
            let full = h.name(i);
            let (pi, short) = h.g.cfg.prefixes.iter().enumerate().find_map(|(k, p)| full.strip_prefix(p.as_str()).map(|s| (k, s.to_string()))).unwrap();
            let name = if h.g.cfg.prefixes.len() > 1 && rng.chance(1, 2) { format!("{}{}", h.g.cfg.prefixes[(pi + 1) % h.g.cfg.prefixes.len()], short) } else { short };
            // same structure as the original (blocks, extends, components stay valid) + a marker;
            // component definitions are dropped (a second provider at another priority is the
            // component-twin operation's job)
            let mut body = h.current[i].clone();
            for ci in h.g.world.info[i].components.clone() {
                let cname = h.g.world.comps[ci].name.clone();
                if let Some(def) = crate::gen::extract_component_source(&body, &cname, &h.g.cfg.delims) {
                    body = body.replace(&def, "");
                }
            }
            body.push_str("TWIN");
            h.push(Op::AddRaw { name: name.clone(), source: body }, Some("template-twin"), true);
            if rng.chance(1, 3) {
                h.push(Op::AddRaw { name, source: "twin replaced".to_string() }, Some("template-twin"), true);
            }
        } else if roll < 4 && !h.g.world.comps.is_empty() && !use_disk {
            // a second provider of an existing component at another fallback priority (valid:
            // priorities differ), later turned into plain text again (the provider disappears):
            // which definition wins must depend on priority only, never on the order of adds
            let c = rng.pick(&h.g.world.comps);
            let d = h.g.cfg.delims.clone();
            let sig: Vec<String> = c.params.iter().map(|p| if p.has_default { format!("{} = {}", p.name, p.sample) } else { p.name.clone() }).collect();
            let body = format!("{} component {}({}{}) {}TWIN{}{} endcomponent {}", d.bs, c.name, sig.join(", "), if c.rest { if sig.is_empty() { "...rest" } else { ", ...rest" } } else { "" }, d.be, rng.below(9), d.bs, d.be);
            let mut names = vec!["zz_twin.html".to_string()];
            for p in &h.g.cfg.prefixes {
                names.push(format!("{}zz_twin.html", p));
            }
            let name = rng.pick(&names);
            h.push(Op::AddRaw { name: name.clone(), source: body }, Some("component-twin-provider"), true);
            if rng.chance(1, 2) {
                h.push(Op::AddRaw { name, source: "twin gone".to_string() }, None, true);
            }
        } else if roll < 22 {
            // valid replacement
            let (i, src) = h.valid_replacement();
            let dep = h.has_dependents(i);
            h.regenerated.insert(i);
            h.current[i] = src.clone();
            let name = h.name(i);
            if use_disk && file_backed[i] {
                h.push(Op::DiskWrite { path: format!("tpl/{}", name), hex: hx(&src) }, None, false);
                h.push(Op::FullReload { faults: vec![] }, None, dep);
            } else if rng.chance(1, 3) {
                // together with a re-add of another template's current source
                let j = rng.below(n);
                let mut its = vec![(name, src), (h.name(j), h.current[j].clone())];
                if rng.chance(1, 2) {
                    its.reverse();
                }
                if its[0].0 == its[1].0 {
                    its.truncate(1);
                }
                h.push(Op::AddBatch { items: its }, None, dep);
            } else {
                h.push(Op::AddRaw { name, source: src }, None, dep);
            }
        } else if roll < 55 {
            // injected invalid operation
            let Some((item, label)) = h.invalid_item() else { continue };
            let target_is_file = use_disk && (0..n).any(|i| file_backed[i] && h.name(i) == item.0);
            if target_is_file && rng.chance(2, 3) {
                // the editor saves a broken file; reload must fail and change nothing; then the
                // old content comes back
                let idx = (0..n).find(|i| h.name(*i) == item.0).unwrap();
                h.push(Op::DiskWrite { path: format!("tpl/{}", item.0), hex: hx(&item.1) }, None, false);
                h.push(Op::FullReload { faults: vec![] }, Some(label), false);
                h.push(Op::DiskWrite { path: format!("tpl/{}", item.0), hex: hx(&h.current[idx].clone()) }, None, false);
                if rng.chance(1, 2) {
                    h.push(Op::FullReload { faults: vec![] }, None, false);
                }
            } else if rng.chance(1, 2) {
                h.push(Op::AddRaw { name: item.0, source: item.1 }, Some(label), false);
            } else {
                // inside a batch of otherwise valid re-adds, at a random position; sometimes with
                // a duplicate name in the batch
                let k = rng.range(1, 3);
                let mut its: Vec<(String, String)> = Vec::new();
                for _ in 0..k {
                    let j = rng.below(n);
                    if h.name(j) != item.0 && !its.iter().any(|x| x.0 == h.name(j)) {
                        its.push((h.name(j), h.current[j].clone()));
                    }
                }
                let pos = rng.below(its.len() + 1);
                its.insert(pos, item.clone());
                if rng.chance(1, 6) {
                    // duplicate name inside the batch: the valid current source first, then the invalid one
                    if let Some(idx) = (0..n).find(|i| h.name(*i) == item.0) {
                        its.insert(0, (item.0.clone(), h.current[idx].clone()));
                    }
                }
                h.push(Op::AddBatch { items: its }, Some(label), false);
            }
        } else if roll < 63 {
            let s = match rng.below(8) {
                0 => vec![],
                1 => vec![".html".to_string()],
                2 => vec![".txt".to_string(), ".md".to_string(), "".to_string()],
                3 => vec![".xml".to_string(), ".htm".to_string()],
                4 => vec![".html".to_string(), ".htm".to_string(), ".xml".to_string()],
                _ => {
                    // random subset of overlapping suffixes (one a suffix of another, the empty
                    // suffix that matches every name): an incremental recomputation of the flags
                    // from the *difference* of two lists goes wrong exactly there (seeded change C10f)
                    let pool = [".html", ".htm", ".xml", ".txt", ".md", "", "l", "ml", "t", "m", ".php.html", "0.html", "1.xml", "d"];
                    let k = rng.range(1, 4);
                    let mut v: Vec<String> = Vec::new();
                    for _ in 0..k {
                        let x = rng.pick(&pool).to_string();
                        if !v.contains(&x) {
                            v.push(x);
                        }
                    }
                    v
                }
            };
            let mut s = s;
            if rng.chance(1, 4) {
                // a suffix that IS a whole template name (and one that is a name minus its first
                // character): "ends with" includes "equals"
                let nm = h.name(rng.below(n));
                if rng.chance(1, 2) && nm.len() > 1 && nm.is_char_boundary(1) {
                    s.push(nm[1..].to_string());
                }
                s.push(nm);
            }
            h.push(Op::AutoescapeOn { suffixes: s.clone() }, None, false);
            if rng.chance(1, 3) {
                // reconfigure again right away, keeping some of the suffixes
                let mut s2: Vec<String> = s.iter().filter(|_| rng.chance(1, 2)).cloned().collect();
                if rng.chance(1, 2) {
                    s2.push(rng.pick(&[".html", "l", "", ".xml", "t"]).to_string());
                }
                h.push(Op::AutoescapeOn { suffixes: s2 }, None, false);
            }
        } else if roll < 67 {
            h.push(Op::SetDelimsLate { delims: Delims::set(rng.below(Delims::N_SETS)) }, Some("late-set-delimiters"), false);
        } else if roll < 71 {
            // (every list must be refused once templates exist: a new one, the empty one, the
            // current one, the current one reversed)
            let cur = h.g.cfg.prefixes.clone();
            let list = match rng.below(4) {
                0 => vec![],
                1 => cur.clone(),
                2 => cur.iter().rev().cloned().collect(),
                _ => vec!["late/".to_string()],
            };
            h.push(Op::SetPrefixesLate { prefixes: list }, Some("late-set-fallback-prefixes"), false);
        } else if roll < 75 && !cloned {
            cloned = true;
            h.push(if rng.chance(1, 3) { Op::CloneKeep } else { Op::CloneSwap }, None, false);
            if rng.chance(1, 2) {
                // right away, on one side only: a replacement of the same byte length (whatever
                // the two instances still share must not go stale on either side)
                let cands: Vec<usize> = (0..n).filter(|i| !(use_disk && file_backed[*i]) && (h.current[*i].contains("hello") || h.current[*i].contains("world"))).collect();
                if !cands.is_empty() {
                    let with_dep: Vec<usize> = cands.iter().copied().filter(|i| h.has_dependents(*i)).collect();
                    let i = if !with_dep.is_empty() { rng.pick(&with_dep) } else { rng.pick(&cands) };
                    let src = h.current[i].replace("hello", "HELLO").replace("world", "WORLD");
                    h.current[i] = src.clone();
                    let dep = h.has_dependents(i);
                    let name = h.name(i);
                    h.push(Op::AddRaw { name, source: src }, Some("same-length-replacement-after-clone"), dep);
                }
            }
        } else if roll < 78 {
            // the global context changes between renders (insert / overwrite / remove / extend)
            let key = rng.pick(&["g_only", "s_any", "n_int", "m", "zz_global"]).to_string();
            let val = match rng.below(4) {
                0 => None,
                1 => Some(SVal::str("<global 2>")),
                2 => Some(SVal::I64(rng.irange(-3, 99))),
                _ => Some(SVal::Str(crate::sval::gen_string(&rng))),
            };
            h.push(Op::SetGlobal { key, val, via_extend: rng.chance(1, 3) }, None, false);
        } else if roll < 80 {
            h.push(Op::Restart, None, false);
        } else if roll < 88 && !h.g.world.comps.is_empty() && !use_disk {
            // a provider re-registered with a change in a component SIGNATURE only (a default
            // value), body untouched: callers in other templates must bind against the new one
            let ci = rng.below(h.g.world.comps.len());
            let ti = h.g.world.comps[ci].tpl;
            let d = h.g.cfg.delims.clone();
            let src = h.current[ti].clone();
            let marker = format!("{} component ", d.bs);
            if let Some(a) = src.find(&marker) {
                if let Some(rel) = src[a..].find(d.be.as_str()) {
                    let header = &src[a..a + rel];
                    let changed = if header.contains("true") {
                        header.replacen("true", "false", 1)
                    } else if header.contains("false") {
                        header.replacen("false", "true", 1)
                    } else {
                        // first digit after an `=`
                        let mut out = String::new();
                        let mut done = false;
                        let mut after_eq = false;
                        for c in header.chars() {
                            if c == '=' {
                                after_eq = true;
                            }
                            if !done && after_eq && c.is_ascii_digit() {
                                out.push(if c == '9' { '1' } else { ((c as u8) + 1) as char });
                                done = true;
                            } else {
                                out.push(c);
                            }
                        }
                        out
                    };
                    if changed != header {
                        let new_src = format!("{}{}{}", &src[..a], changed, &src[a + rel..]);
                        h.current[ti] = new_src.clone();
                        h.push(Op::AddRaw { name: h.name(ti), source: new_src }, Some("component-signature-only-change"), true);
                    }
                }
            }
        } else if roll < 90 {
            // degenerate and idempotent calls, right after something else changed: no "nothing
            // to do" shortcut may skip work that the earlier change made necessary
            match rng.below(7) {
                0 => h.push(Op::AddBatch { items: vec![] }, Some("empty-batch"), false),
                1 => {
                    let i = rng.below(n);
                    h.push(Op::AddRaw { name: h.name(i), source: h.current[i].clone() }, Some("identical-re-add"), false);
                }
                2 => {
                    let i = rng.below(n);
                    let it = (h.name(i), h.current[i].clone());
                    h.push(Op::AddBatch { items: vec![it.clone(), it] }, Some("same-pair-twice-in-batch"), false);
                }
                3 => {
                    // the suffix list the engine already has (whatever the last call set)
                    let last = h.ops.iter().rev().find_map(|o| if let Op::AutoescapeOn { suffixes } = o { Some(suffixes.clone()) } else { None });
                    if let Some(sfx) = last {
                        h.push(Op::AutoescapeOn { suffixes: sfx }, Some("same-suffix-list-again"), false);
                    }
                }
                4 if use_disk => h.push(Op::AddFiles { items: vec![], faults: vec![] }, Some("empty-file-batch"), false),
                5 if use_disk => {
                    // a glob that matches nothing: every glob-owned template goes away (dependents
                    // may break: then the call must fail and change nothing), then the real one again
                    h.push(Op::LoadGlob { pattern: "nomatch/**/*".into(), faults: vec![] }, Some("glob-matching-nothing"), true);
                    h.push(Op::LoadGlob { pattern: "tpl/**/*".into(), faults: vec![] }, None, false);
                }
                _ => h.push(Op::FullReload { faults: vec![] }, Some("reload-maybe-without-glob"), false),
            }
        } else if use_disk {
            let files: Vec<usize> = (0..n).filter(|i| file_backed[*i]).collect();
            if files.is_empty() {
                continue;
            }
            let i = rng.pick(&files);
            let name = h.name(i);
            let path = format!("tpl/{}", name);
            match rng.below(9) {
                0 | 1 => {
                    // storage fault on a file, then reload; then repair
                    let (bytes, kind) = corrupt(h.current[i].as_bytes(), &rng);
                    h.push(Op::DiskWrite { path: path.clone(), hex: hex(&bytes) }, Some(kind), false);
                    h.push(Op::FullReload { faults: vec![] }, Some(kind), false);
                    if rng.chance(2, 3) {
                        h.push(Op::DiskWrite { path, hex: hx(&h.current[i].clone()) }, None, false);
                        h.push(Op::FullReload { faults: vec![] }, None, false);
                    }
                }
                2 => {
                    // delete a file others may depend on, reload (fails or shrinks), restore
                    h.push(Op::DiskDelete { path: path.clone() }, None, false);
                    h.push(Op::FullReload { faults: vec![] }, Some("file-deleted"), h.has_dependents(i));
                    h.push(Op::DiskWrite { path, hex: hx(&h.current[i].clone()) }, None, false);
                    h.push(Op::FullReload { faults: vec![] }, None, false);
                }
                3 => {
                    // TOCTOU: the file changes between listing and open
                    let action = match rng.below(4) {
                        0 => DiskAction::Delete(path.clone()),
                        1 => DiskAction::Truncate(path.clone(), rng.below(h.current[i].len().max(1))),
                        2 => DiskAction::MkdirInPlace(path.clone()),
                        _ => DiskAction::Replace(path.clone(), hex(&corrupt(h.current[i].as_bytes(), &rng).0)),
                    };
                    let nth = rng.below(files.len());
                    h.push(Op::FullReload { faults: vec![DiskFault { nth, action }] }, Some("toctou"), false);
                    h.push(Op::DiskDelete { path: path.clone() }, None, false);
                    h.push(Op::DiskWrite { path, hex: hx(&h.current[i].clone()) }, None, false);
                    h.push(Op::FullReload { faults: vec![] }, None, false);
                }
                4 => {
                    h.push(Op::DiskMkdir { path: path.clone() }, Some("dir_in_place_of_file"), false);
                    h.push(Op::FullReload { faults: vec![] }, Some("dir_in_place_of_file"), false);
                    h.push(Op::DiskDelete { path: path.clone() }, None, false);
                    h.push(Op::DiskWrite { path, hex: hx(&h.current[i].clone()) }, None, false);
                    h.push(Op::FullReload { faults: vec![] }, None, false);
                }
                5 => {
                    // a narrower glob: templates that no longer match vanish (dependents may break)
                    let pat = rng.pick(&["tpl/**/*.html", "tpl/*.html", "tpl/*", "tpl/**/*"]).to_string();
                    h.push(Op::LoadGlob { pattern: pat, faults: vec![] }, Some("narrower-glob"), true);
                    if rng.chance(1, 2) {
                        h.push(Op::LoadGlob { pattern: "tpl/**/*".into(), faults: vec![] }, None, false);
                    }
                }
                6 => {
                    // load one file explicitly under its registry name (becomes manual); half of
                    // the time from a path whose suffix says something else than the name
                    if rng.chance(1, 2) {
                        let alt = format!("alt/zz_alt{}{}", rng.below(2), rng.pick(&[".txt", ".html", ".tpl", "", ".xml", ".HTML"]));
                        h.push(Op::DiskWrite { path: alt.clone(), hex: hx(&h.current[i].clone()) }, None, false);
                        h.push(Op::AddFile { path: alt, name: Some(name.clone()), faults: vec![] }, Some("file-path-suffix-differs-from-name"), h.has_dependents(i));
                    } else {
                        h.push(Op::AddFile { path: path.clone(), name: Some(name.clone()), faults: vec![] }, None, h.has_dependents(i));
                    }
                }
                7 if rng.chance(1, 2) => {
                    // a batch of 2-4 files in which one, at a random position, is unusable
                    // (broken content, not UTF-8, missing, a directory): everything inserted
                    // before it in the same call must be taken out again
                    let mut picks: Vec<usize> = files.clone();
                    rng.shuffle(&mut picks);
                    picks.truncate(rng.range(2, 4).min(picks.len()));
                    let bad = rng.below(picks.len());
                    let mut its: Vec<(String, Option<String>)> = Vec::new();
                    for (k, fi) in picks.iter().enumerate() {
                        let nm = h.name(*fi);
                        if k == bad {
                            let bp = format!("tpl/zz_bad{}", rng.below(3));
                            match rng.below(4) {
                                0 => {
                                    let (bytes, _) = corrupt(h.current[*fi].as_bytes(), &rng);
                                    h.push(Op::DiskWrite { path: bp.clone(), hex: hex(&bytes) }, Some("storage-fault"), false);
                                }
                                1 => h.push(Op::DiskWrite { path: bp.clone(), hex: hex(&[0xff, 0xfe, 0x41]) }, Some("non_utf8"), false),
                                2 => h.push(Op::DiskMkdir { path: bp.clone() }, Some("dir_in_place_of_file"), false),
                                _ => h.push(Op::DiskDelete { path: bp.clone() }, Some("missing-file"), false),
                            }
                            its.push((bp, Some(nm)));
                        } else {
                            its.push((format!("tpl/{}", nm), Some(nm)));
                        }
                    }
                    let dup = rng.chance(1, 2);
                    if dup {
                        // the same name twice in the batch, from two different files, before the
                        // unusable one: the roll-back must bring back what was registered before
                        // the call, not the first of the two
                        let nm = h.name(picks[rng.below(picks.len())]);
                        for k in 0..2 {
                            let dp = format!("tpl/zz_dup{}", k);
                            h.push(Op::DiskWrite { path: dp.clone(), hex: hx(&format!("dup {} of {}", k, nm)) }, None, false);
                            its.insert(k.min(its.len()), (dp, Some(nm.clone())));
                        }
                    }
                    h.push(Op::AddFiles { items: its, faults: vec![] }, Some(if dup { "bad-file-in-batch-with-duplicate-names" } else { "bad-file-in-batch" }), false);
                    for k in 0..3 {
                        h.push(Op::DiskDelete { path: format!("tpl/zz_bad{}", k) }, None, false);
                    }
                    if dup {
                        for k in 0..2 {
                            h.push(Op::DiskDelete { path: format!("tpl/zz_dup{}", k) }, None, false);
                        }
                    }
                }
                7 => {
                    // a batch of files, one of them possibly vanishing before it is opened
                    let j = rng.pick(&files);
                    let mut its = vec![(path.clone(), Some(name.clone()))];
                    if j != i {
                        its.push((format!("tpl/{}", h.name(j)), Some(h.name(j))));
                    }
                    let faults = if rng.chance(1, 2) { vec![DiskFault { nth: its.len() - 1, action: DiskAction::Delete(its.last().unwrap().0.clone()) }] } else { vec![] };
                    let had_fault = !faults.is_empty();
                    h.push(Op::AddFiles { items: its.clone(), faults }, if had_fault { Some("toctou") } else { None }, false);
                    if had_fault {
                        let last = its.last().unwrap().clone();
                        let idx = (0..n).find(|k| Some(h.name(*k)) == last.1).unwrap();
                        h.push(Op::DiskWrite { path: last.0, hex: hx(&h.current[idx].clone()) }, None, false);
                    }
                }
                _ => {
                    // file loaded without an explicit name: the name is the path
                    // (the name is the path AS GIVEN: unusual spellings of one file are different
                    // names, and a spelling is never tidied)
                    h.push(Op::DiskWrite { path: "other/extra.txt".into(), hex: hx("plain extra") }, None, false);
                    let spelled = rng.pick(&["other/extra.txt", "other//extra.txt", "other/./extra.txt", "./other/extra.txt", "other/../other/extra.txt", "other///extra.txt"]).to_string();
                    h.push(Op::AddFile { path: spelled.clone(), name: None, faults: vec![] }, Some("file-named-by-its-path-as-spelled"), false);
                    if rng.chance(1, 2) {
                        let second = rng.pick(&["other/extra.txt", "other//extra.txt", "other/./extra.txt"]).to_string();
                        h.push(Op::AddFile { path: second, name: None, faults: vec![] }, Some("file-named-by-its-path-as-spelled"), false);
                    }
                }
            }
        } else {
            // one more valid replacement in the non-disk runs
            let (i, src) = h.valid_replacement();
            let dep = h.has_dependents(i);
            h.regenerated.insert(i);
            h.current[i] = src.clone();
            h.push(Op::AddRaw { name: h.name(i), source: src }, None, dep);
        }
    }
    if rng.chance(1, 2) {
        h.push(Op::Restart, None, false);
    }

    // ---------------------------------------------------------------- probe
    let world = &h.g.world;
    let mut names: Vec<String> = world.info.iter().map(|t| t.name.clone()).collect();
    for nm in names.clone() {
        for p in &config.prefixes {
            if let Some(short) = nm.strip_prefix(p.as_str()) {
                if !names.contains(&short.to_string()) {
                    names.push(short.to_string());
                }
            }
        }
    }
    names.push("nope.html".to_string());
    names.push("zz_twin.html".to_string());
    for op in &h.ops {
        if let Op::AddRaw { name, .. } = op {
            if !names.contains(name) {
                names.push(name.clone());
            }
        }
    }
    for k in 0..3 {
        names.push(format!("zz_new{}.html", k));
    }
    let mut blocks: Vec<String> = Vec::new();
    for t in &world.info {
        for b in &t.chain_blocks {
            if !blocks.contains(b) {
                blocks.push(b.clone());
            }
        }
    }
    blocks.truncate(6);
    blocks.push("zz_orphan".to_string());
    let mut comps: Vec<CompProbe> = Vec::new();
    for c in &world.comps {
        if !comps.iter().any(|p| p.name == c.name) {
            comps.push(CompProbe { name: c.name.clone(), ctx: comp_probe_ctx(c, false), body: if rng.chance(1, 2) { Some("<i>b</i>".into()) } else { None } });
        }
    }
    if comps.is_empty() {
        comps.push(CompProbe { name: COMP_NAMES[0].to_string(), ctx: Default::default(), body: None });
    }
    comps.truncate(5);
    // components that only operations of the history define (also failing ones: a refused batch
    // must not leave its components in the global table)
    let mut extra: Vec<String> = Vec::new();
    for op in &h.ops {
        let srcs: Vec<&String> = match op {
            Op::AddRaw { source, .. } => vec![source],
            Op::AddBatch { items } => items.iter().map(|x| &x.1).collect(),
            _ => vec![],
        };
        for sr in srcs {
            let mut pos = 0;
            while let Some(p) = sr[pos..].find("component ") {
                let at = pos + p + "component ".len();
                let end = sr[at..].find('(').map(|e| at + e).unwrap_or(at);
                let nm = sr[at..end].trim();
                if !nm.is_empty() && nm.len() < 40 && nm.chars().all(|c| c.is_ascii_alphanumeric() || c == '.' || c == '_') && !comps.iter().any(|c| c.name == nm) && !extra.contains(&nm.to_string()) {
                    extra.push(nm.to_string());
                }
                pos = at;
            }
        }
    }
    for nm in extra.into_iter().take(6) {
        comps.push(CompProbe { name: nm, ctx: Default::default(), body: None });
    }
    let contexts = vec![gen_context(&rng, 0), gen_context(&rng, 1), gen_context(&rng, 2)];
    RegScenario {
        family: "general".into(),
        property: property.to_string(),
        config,
        hash_base: rng.next_u64(),
        contexts,
        probe: {
            let delims_for_oneoffs = h.g.cfg.delims.clone();
            // one-off calls of up to four components (self-closing; arguments missing on purpose:
            // what matters is whether the call is *accepted*), under the run's delimiters
            let d = &delims_for_oneoffs;
            let oneoffs: Vec<String> = comps.iter().take(4).map(|c| format!("one-off {} <{}/> {}", d.vs, c.name, d.ve)).collect();
            Probe { names, blocks, comps, oneoffs }
        },
        ops: h.ops,
        notes: h.notes,
        fresh_seed: rng.next_u64(),
        crash_shape: String::new(),
        graph_model: false,
        inherit_model: false,
        step_budget: 50_000_000,
        render_accepted: true,
        render_f2_states: false,
    }
}
