//! Shared result types: violations, per-run outcomes, counters.
use serde::{Deserialize, Serialize};
use std::collections::{BTreeMap, BTreeSet};

#[derive(Clone, Debug, Serialize, Deserialize, PartialEq)]
pub struct Violation {
    pub property: String,
    /// stable identifier of the invariant that failed (the violation *class* that minimisation
    /// and replay must preserve)
    pub invariant: String,
    pub detail: String,
    /// signature used to match `known_findings.jsonl` (empty when there is none)
    #[serde(default)]
    pub signature: BTreeMap<String, String>,
}

impl Violation {
    pub fn new(property: &str, invariant: &str, detail: String) -> Violation {
        Violation { property: property.to_string(), invariant: invariant.to_string(), detail, signature: BTreeMap::new() }
    }
    pub fn with_sig(mut self, k: &str, v: &str) -> Violation {
        self.signature.insert(k.to_string(), v.to_string());
        self
    }
}

#[derive(Clone, Debug, Default, Serialize, Deserialize)]
pub struct Stats {
    pub counters: BTreeMap<String, u64>,
    /// fingerprints of distinct non-trivial cases (rule stated per engine)
    #[serde(skip)]
    pub distinct: BTreeSet<u64>,
    /// secondary distinct sets (interleavings, registry states, ...) by name
    #[serde(skip)]
    pub distinct_named: BTreeMap<String, BTreeSet<u64>>,
    pub samples: Vec<serde_json::Value>,
    pub max: BTreeMap<String, u64>,
}

impl Stats {
    #[inline]
    pub fn inc(&mut self, k: &str) {
        self.add(k, 1);
    }
    #[inline]
    pub fn add(&mut self, k: &str, n: u64) {
        if let Some(c) = self.counters.get_mut(k) {
            *c += n;
        } else {
            self.counters.insert(k.to_string(), n);
        }
    }
    pub fn maxi(&mut self, k: &str, v: u64) {
        let e = self.max.entry(k.to_string()).or_insert(0);
        if v > *e {
            *e = v;
        }
    }
    pub fn distinct_in(&mut self, set: &str, h: u64) {
        self.distinct_named.entry(set.to_string()).or_default().insert(h);
    }
    pub fn sample(&mut self, cap: usize, f: impl FnOnce() -> serde_json::Value) {
        if self.samples.len() < cap {
            self.samples.push(f());
        }
    }
}

/// What one executed scenario produced.
#[derive(Clone, Debug, Default)]
pub struct Outcome {
    pub violations: Vec<Violation>,
    /// FNV of the run's event log — equal for equal (scenario, code)
    pub fingerprint: u64,
    /// scenarios that must only be executed in a sacrificial child process (known crash shape)
    pub deferred: Vec<serde_json::Value>,
}

#[derive(Clone, Debug, Serialize, Deserialize)]
pub struct ReplayFile {
    pub format: u32,
    pub property: String,
    pub engine: String,
    pub master_seed: u64,
    pub run_index: u64,
    pub run_seed: u64,
    pub tier: String,
    pub scenario: serde_json::Value,
    pub expect: Option<Violation>,
    #[serde(default)]
    pub minimised: bool,
    #[serde(default)]
    pub note: String,
    /// which strided share of the runs the finding worker was executing (so that the runs that
    /// preceded this one *in the same process* can be regenerated)
    #[serde(default)]
    pub worker: Option<WorkerSeg>,
    /// replay must first execute the worker's preceding runs in the same process: the failure
    /// depends on process-global state left behind by earlier runs (a static in the code under
    /// test), so the scenario alone does not reproduce it in a fresh process
    #[serde(default)]
    pub prelude: bool,
    /// which build of the simulator produced the file: "" = default (tera with `fast_hash`,
    /// `glob_fs`), "alt" = additionally `unicode`, `no_fmt`, `fast_escape`. A file is only
    /// replayed by the build that wrote it.
    #[serde(default)]
    pub build: String,
}

/// The build flavour of this binary (see `ReplayFile::build`).
pub const BUILD: &str = if cfg!(feature = "alt") { "alt" } else { "" };

#[derive(Clone, Debug, Serialize, Deserialize)]
pub struct WorkerSeg {
    pub check: String,
    pub family: String,
    pub from: u64,
    pub stride: u64,
    pub offset: u64,
}

/// Runs `f`, converting a panic into `Err(message)`.
pub fn catch<T>(f: impl FnOnce() -> T) -> Result<T, String> {
    let r = std::panic::catch_unwind(std::panic::AssertUnwindSafe(f));
    progress();
    match r {
        Ok(v) => Ok(v),
        Err(p) => {
            let msg = if let Some(s) = p.downcast_ref::<&str>() {
                s.to_string()
            } else if let Some(s) = p.downcast_ref::<String>() {
                s.clone()
            } else {
                "<non-string panic payload>".to_string()
            };
            let loc = LAST_PANIC_LOC.with(|l| l.borrow_mut().take()).unwrap_or_default();
            Err(format!("{} @ {}", msg, loc))
        }
    }
}

thread_local! {
    pub static LAST_PANIC_LOC: std::cell::RefCell<Option<String>> = const { std::cell::RefCell::new(None) };
}

/// message + location of the most recent panic of any thread (read after a run thread died)
pub static LAST_PANIC_GLOBAL: std::sync::Mutex<Option<String>> = std::sync::Mutex::new(None);

pub fn install_panic_hook() {
    std::panic::set_hook(Box::new(|info| {
        let loc = info.location().map(|l| format!("{}:{}", l.file(), l.line())).unwrap_or_default();
        let msg = if let Some(s) = info.payload().downcast_ref::<&str>() {
            s.to_string()
        } else if let Some(s) = info.payload().downcast_ref::<String>() {
            s.clone()
        } else {
            String::new()
        };
        if let Ok(mut g) = LAST_PANIC_GLOBAL.lock() {
            *g = Some(format!("{} @ {}", msg, loc));
        }
        LAST_PANIC_LOC.with(|l| *l.borrow_mut() = Some(loc));
    }));
}


// ------------------------------------------------------------------------------------------------
// heartbeat (supervision only: nothing here feeds back into a run)
// ------------------------------------------------------------------------------------------------

struct Hb {
    path: String,
    index: u64,
    seed: u64,
    calls: u64,
    last_write: std::time::Instant,
}

static HB: std::sync::Mutex<Option<Hb>> = std::sync::Mutex::new(None);

/// A run is about to start: `<index> <seed> 0` goes to the worker's heartbeat file.
pub fn heartbeat_start(path: &str, index: u64, seed: u64) {
    if let Ok(mut f) = std::fs::File::create(path) {
        use std::io::Write;
        let _ = writeln!(f, "{} {} 0", index, seed);
    }
    if let Ok(mut g) = HB.lock() {
        *g = Some(Hb { path: path.to_string(), index, seed, calls: 0, last_write: std::time::Instant::now() });
    }
}

/// One more call into the engine has returned. The file is rewritten at most once a second
/// (wall clock read for supervision only: the supervisor must tell "one call never returns"
/// from "a run makes many slow calls"); no effect on anything the run computes.
pub fn progress() {
    if let Ok(mut g) = HB.lock() {
        if let Some(h) = g.as_mut() {
            h.calls += 1;
            if h.calls % 16 == 0 && h.last_write.elapsed().as_millis() >= 1000 {
                h.last_write = std::time::Instant::now();
                if let Ok(mut f) = std::fs::File::create(&h.path) {
                    use std::io::Write;
                    let _ = writeln!(f, "{} {} {}", h.index, h.seed, h.calls);
                }
            }
        }
    }
}
