//! The writer seam: a `Write` whose every call is decided by a plan (DESIGN.md §2.3).
use crate::rng::Rng;
use serde::{Deserialize, Serialize};
use std::io::{self, Write};

#[derive(Clone, Copy, Debug, Serialize, Deserialize, PartialEq, Eq, Hash, PartialOrd, Ord)]
pub enum FaultKind {
    BrokenPipe,
    ConnectionReset,
    WouldBlock,
    TimedOut,
    StorageFull,
    Other,
    /// the writer returns `Ok(0)`: std's `write_all` turns that into `ErrorKind::WriteZero`
    WriteZero,
}

pub const ALL_KINDS: [FaultKind; 7] = [
    FaultKind::BrokenPipe,
    FaultKind::ConnectionReset,
    FaultKind::WouldBlock,
    FaultKind::TimedOut,
    FaultKind::StorageFull,
    FaultKind::Other,
    FaultKind::WriteZero,
];

impl FaultKind {
    pub fn io_kind(self) -> io::ErrorKind {
        match self {
            FaultKind::BrokenPipe => io::ErrorKind::BrokenPipe,
            FaultKind::ConnectionReset => io::ErrorKind::ConnectionReset,
            FaultKind::WouldBlock => io::ErrorKind::WouldBlock,
            FaultKind::TimedOut => io::ErrorKind::TimedOut,
            FaultKind::StorageFull => io::ErrorKind::StorageFull,
            FaultKind::Other => io::ErrorKind::Other,
            FaultKind::WriteZero => io::ErrorKind::WriteZero,
        }
    }
}

#[derive(Clone, Copy, Debug, Serialize, Deserialize, PartialEq, Eq)]
pub enum FaultAt {
    /// the k-th invocation of `write` (0-based) fails
    Call(usize),
    /// the writer accepts exactly `b` bytes in total (cutting a call short if needed), then fails
    Byte(usize),
}

#[derive(Clone, Debug, Serialize, Deserialize, PartialEq, Default)]
pub struct WPlan {
    /// Some(seed): random short writes and bounded `Interrupted` bursts (absorbed by `write_all`)
    pub transient: Option<u64>,
    pub fault: Option<(FaultAt, FaultKind)>,
}

impl WPlan {
    pub fn perfect() -> WPlan {
        WPlan::default()
    }
    pub fn transient(seed: u64) -> WPlan {
        WPlan { transient: Some(seed), fault: None }
    }
    pub fn fail(at: FaultAt, kind: FaultKind) -> WPlan {
        WPlan { transient: None, fault: Some((at, kind)) }
    }
}

#[derive(Default, Clone, Debug)]
pub struct WStats {
    pub calls: usize,
    pub short_writes: usize,
    pub interrupts: usize,
    pub fired: bool,
    /// calls made after the permanent fault was first reported
    pub calls_after_fault: usize,
}

pub struct SimWriter {
    plan: WPlan,
    rng: Option<Rng>,
    pub accepted: Vec<u8>,
    pub stats: WStats,
    eintr_burst: usize,
    /// called at the start of every `write` (scheduler yield point in threadsim)
    pub on_call: Option<fn()>,
}

impl SimWriter {
    pub fn new(plan: WPlan) -> SimWriter {
        let rng = plan.transient.map(Rng::new);
        SimWriter { plan, rng, accepted: Vec::new(), stats: WStats::default(), eintr_burst: 0, on_call: None }
    }

    fn fail(&mut self, kind: FaultKind) -> io::Result<usize> {
        if self.stats.fired {
            self.stats.calls_after_fault += 1;
        }
        self.stats.fired = true;
        if kind == FaultKind::WriteZero {
            Ok(0)
        } else {
            Err(io::Error::new(kind.io_kind(), "terasim injected fault"))
        }
    }
}

impl Write for SimWriter {
    fn write(&mut self, buf: &[u8]) -> io::Result<usize> {
        if let Some(f) = self.on_call {
            f();
        }
        let idx = self.stats.calls;
        self.stats.calls += 1;
        if buf.is_empty() {
            return Ok(0);
        }
        if let Some((at, kind)) = self.plan.fault {
            if self.stats.fired {
                return self.fail(kind);
            }
            match at {
                FaultAt::Call(k) => {
                    if idx == k {
                        return self.fail(kind);
                    }
                }
                FaultAt::Byte(b) => {
                    if self.accepted.len() >= b {
                        return self.fail(kind);
                    }
                    let room = b - self.accepted.len();
                    if buf.len() > room {
                        self.accepted.extend_from_slice(&buf[..room]);
                        self.stats.short_writes += 1;
                        return Ok(room);
                    }
                }
            }
        }
        if let Some(rng) = self.rng.as_mut() {
            if self.eintr_burst < 8 && rng.chance(1, 5) {
                self.eintr_burst += 1;
                self.stats.interrupts += 1;
                return Err(io::Error::new(io::ErrorKind::Interrupted, "terasim EINTR"));
            }
            self.eintr_burst = 0;
            if buf.len() > 1 && rng.chance(1, 2) {
                let n = 1 + rng.below(buf.len() - 1);
                self.accepted.extend_from_slice(&buf[..n]);
                self.stats.short_writes += 1;
                return Ok(n);
            }
        }
        self.accepted.extend_from_slice(buf);
        Ok(buf.len())
    }

    fn flush(&mut self) -> io::Result<()> {
        Ok(())
    }
}
