//! Workload generator, family *general*: valid-by-construction worlds (templates + components)
//! with bounded predicted render work, used by rendersim, regsim(general), threadsim, disksim.
//!
//! The generator never predicts output; oracles are differential (channel vs channel, instance vs
//! fresh instance, before vs after). It only has to guarantee (a) the set is *accepted* unless an
//! invalid kind is injected on purpose, (b) bounded render work, (c) the permanent hazard
//! exclusions of DESIGN.md §2.5 (at most one possibly-failing kwarg per call, at most one
//! undeclared component argument).
use crate::rng::Rng;
use crate::sval::{Kind, SCHEMA};
use serde::{Deserialize, Serialize};

#[derive(Clone, Debug, Serialize, Deserialize, PartialEq)]
pub struct Delims {
    pub bs: String,
    pub be: String,
    pub vs: String,
    pub ve: String,
    pub cs: String,
    pub ce: String,
}

impl Default for Delims {
    fn default() -> Self {
        Delims::new("{%", "%}", "{{", "}}", "{#", "#}")
    }
}

impl Delims {
    pub fn new(bs: &str, be: &str, vs: &str, ve: &str, cs: &str, ce: &str) -> Delims {
        Delims { bs: bs.into(), be: be.into(), vs: vs.into(), ve: ve.into(), cs: cs.into(), ce: ce.into() }
    }
    pub fn is_default(&self) -> bool {
        *self == Delims::default()
    }
    /// The six delimiter sets of DESIGN.md §5.6.
    pub const N_SETS: usize = 8;
    pub fn set(i: usize) -> Delims {
        match i % Self::N_SETS {
            // start delimiters that do NOT share their first byte (added after seeded change
            // C06c): ASCII mix, and three 2-byte characters with different lead bytes
            6 => Delims::new("{%", "%}", "[[", "]]", "<#", "#>"),
            7 => Delims::new("\u{ab}", "\u{bb}", "\u{3a9}", "\u{3c9}", "\u{e8}", "\u{ea}"),
            0 => Delims::default(),
            1 => Delims::new("<%", "%>", "<<", ">>", "<#", "#>"),
            2 => Delims::new("[%", "%]", "[[", "]]", "[#", "#]"),
            3 => Delims::new("(%", "%)", "((", "))", "(#", "#)"),
            4 => Delims::new("\u{ab}", "\u{bb}", "\u{a6}", "\u{ac}", "\u{a4}", "\u{a5}"),
            _ => Delims::new("\u{a4}", "\u{a5}", "\u{ab}", "\u{bb}", "\u{a6}", "\u{ac}"),
        }
    }
    pub fn to_tera(&self) -> tera::Delimiters {
        tera::Delimiters {
            block_start: self.bs.clone().into(),
            block_end: self.be.clone().into(),
            variable_start: self.vs.clone().into(),
            variable_end: self.ve.clone().into(),
            comment_start: self.cs.clone().into(),
            comment_end: self.ce.clone().into(),
        }
    }
    /// Tag content must not contain a delimiter by accident (`nth(n=1))` under `(( ))`, a nested
    /// map literal `{"a": {}}` under the default set): split two-character delimiters with a
    /// space, replace one-character ones (they can only occur inside string literals).
    pub fn sanitize_inner(&self, inner: &str) -> String {
        let mut t = inner.to_string();
        for d in [&self.bs, &self.be, &self.vs, &self.ve, &self.cs, &self.ce] {
            let chars: Vec<char> = d.chars().collect();
            if chars.len() == 2 {
                let split = format!("{} {}", chars[0], chars[1]);
                while t.contains(d.as_str()) {
                    t = t.replace(d.as_str(), &split);
                }
            } else {
                t = t.replace(d.as_str(), "?");
            }
        }
        t
    }
    /// Two-byte strings made of the first byte of one start delimiter and the second byte of
    /// another (valid UTF-8 only, not themselves a delimiter): plain text that a sloppy marker
    /// search could mistake for a delimiter.
    pub fn cross_pairs(&self) -> Vec<String> {
        let st = self.starts();
        let mut out = Vec::new();
        for a in st {
            for b in st {
                let (ab, bb) = (a.as_bytes(), b.as_bytes());
                if ab.len() == 2 && bb.len() == 2 {
                    if let Ok(sx) = std::str::from_utf8(&[ab[0], bb[1]]) {
                        if !st.contains(&sx) && ![self.be.as_str(), self.ve.as_str(), self.ce.as_str()].contains(&sx) && !out.contains(&sx.to_string()) {
                            out.push(sx.to_string());
                        }
                    }
                }
            }
        }
        out
    }
    fn starts(&self) -> [&str; 3] {
        [&self.bs, &self.vs, &self.cs]
    }
    /// Make literal text safe: no start delimiter inside, and no last character that could fuse
    /// with a following tag into another start delimiter.
    pub fn sanitize(&self, text: &str) -> String {
        let mut t = text.to_string();
        loop {
            let mut changed = false;
            for d in self.starts() {
                while let Some(pos) = t.find(d) {
                    let first_len = d.chars().next().unwrap().len_utf8();
                    t.replace_range(pos..pos + first_len, "_");
                    changed = true;
                }
            }
            if !changed {
                break;
            }
        }
        if let Some(last) = t.chars().last() {
            if self.starts().iter().any(|d| d.chars().next() == Some(last) && d.chars().count() > 1) {
                t.pop();
                t.push('_');
            }
        }
        t
    }
}

#[derive(Clone, Debug)]
pub struct GenCfg {
    pub n_templates: usize,
    pub max_depth: usize,
    pub stmts_per_body: usize,
    pub expr_depth: usize,
    /// per-mille probability that an operand is deliberately ill-typed / undefined
    pub ill_typed: usize,
    pub undefined: usize,
    pub delims: Delims,
    pub ws_markers: bool,
    pub prefixes: Vec<String>,
    pub custom: bool,
    /// weights: text, print, if, for, set, setblock, filtersec, include, block, compcall, raw, comment
    pub w: [usize; 12],
    pub inheritance: usize, // per-mille of templates that extend another
    pub components: usize,  // per-mille of templates that define components
    pub unicode_text: bool,
    pub cost_budget: usize,
}

impl GenCfg {
    /// Swarm-style: every knob is drawn per world.
    pub fn swarm(rng: &Rng) -> GenCfg {
        let mut w = [6, 8, 4, 4, 3, 2, 2, 3, 3, 3, 1, 1];
        // disable a random subset of statement kinds (never text/print)
        for wi in w.iter_mut().skip(2) {
            if rng.chance(1, 5) {
                *wi = 0;
            } else if rng.chance(1, 4) {
                *wi *= 3;
            }
        }
        let delims = if rng.chance(1, 4) { Delims::set(rng.range(1, Delims::N_SETS - 1)) } else { Delims::default() };
        let prefixes = match rng.below(5) {
            0 => vec!["themes/a/".to_string()],
            1 => vec!["themes/a/".to_string(), "themes/b/".to_string()],
            _ => vec![],
        };
        GenCfg {
            n_templates: rng.range(2, 9),
            max_depth: rng.range(1, 4),
            stmts_per_body: rng.range(1, 6),
            expr_depth: rng.range(1, 3),
            ill_typed: rng.pick(&[0, 10, 40, 120]),
            undefined: rng.pick(&[0, 10, 40, 100]),
            delims,
            ws_markers: rng.chance(1, 3),
            prefixes,
            custom: rng.chance(1, 2),
            w,
            inheritance: rng.pick(&[0, 200, 500]),
            components: rng.pick(&[0, 300, 600]),
            unicode_text: rng.chance(1, 2),
            cost_budget: rng.pick(&[300, 1000, 4000]),
        }
    }
}

#[derive(Clone, Debug, Serialize, Deserialize, PartialEq)]
pub struct Param {
    pub name: String,
    /// declared type name, if any
    pub ty: Option<String>,
    pub has_default: bool,
    /// a source-level literal that satisfies the declared type
    pub sample: String,
}

#[derive(Clone, Debug, Serialize, Deserialize, PartialEq)]
pub struct CompInfo {
    pub name: String,
    pub params: Vec<Param>,
    pub rest: bool,
    pub uses_body: bool,
    pub tpl: usize,
    pub cost: usize,
    pub recursive: bool,
}

#[derive(Clone, Debug, Serialize, Deserialize, PartialEq, Default)]
pub struct TplInfo {
    pub name: String,
    pub extends: Option<usize>,
    /// block names defined by this template itself
    pub own_blocks: Vec<String>,
    /// block names of the whole chain (own + ancestors)
    pub chain_blocks: Vec<String>,
    pub includes: Vec<usize>,
    pub components: Vec<usize>,
    pub cost: usize,
}

#[derive(Clone, Debug, Default)]
pub struct World {
    pub templates: Vec<(String, String)>,
    pub info: Vec<TplInfo>,
    pub comps: Vec<CompInfo>,
}

const SUFFIXES: &[&str] = &[".html", ".html", ".htm", ".xml", ".txt", ".md", ""];
const BLOCK_NAMES: &[&str] = &["content", "title", "nav", "footer", "side", "extra", "b1", "b2"];
pub const COMP_NAMES: &[&str] = &["Card", "Btn", "ui.Tag", "ui.forms.Input", "Row", "Wrap", "Rec", "Item"];

#[derive(Clone)]
struct Env {
    vars: Vec<(String, Kind)>,
    ctx_visible: bool,
    in_loop: bool,
    can_break: bool,
    blocks_allowed: bool,
    cur_block: Option<(String, bool)>, // (name, has ancestor definition)
    mult: usize,
    depth: usize,
    tpl: usize,
    comp: Option<usize>, // index the component being defined will get
}

pub struct Gen<'a> {
    /// `super()` calls written into the template being generated. A chain multiplies them
    /// (each level's calls run once per call of the level below), and inside captures the
    /// *size* multiplies too: at most two per template, never inside a loop.
    supers_in_tpl: usize,
    pub rng: &'a Rng,
    pub cfg: GenCfg,
    pub world: World,
    // per-template accumulation while generating
    cur_includes: Vec<usize>,
    cur_blocks: Vec<String>,
    cur_cost: usize,
    block_counter: usize,
    set_counter: usize,
    stmt_count: usize,
    dump_count: usize,
}

fn escape_str_lit(s: &str) -> String {
    let mut out = String::new();
    for c in s.chars() {
        match c {
            '"' => out.push_str("\\\""),
            '\\' => out.push_str("\\\\"),
            '\n' => out.push_str("\\n"),
            '\t' => out.push_str("\\t"),
            '\r' => out.push_str("\\r"),
            c if (c as u32) < 0x20 => out.push('?'),
            c => out.push(c),
        }
    }
    out
}

impl<'a> Gen<'a> {
    pub fn new(rng: &'a Rng, cfg: GenCfg) -> Gen<'a> {
        Gen {
            supers_in_tpl: 0,
            rng,
            cfg,
            world: World::default(),
            cur_includes: vec![],
            cur_blocks: vec![],
            cur_cost: 0,
            block_counter: 0,
            set_counter: 0,
            stmt_count: 0,
            dump_count: 0,
        }
    }

    // ---------------------------------------------------------------- tags

    fn tag(&mut self, inner: &str) -> String {
        let (l, r) = self.ws();
        let inner = self.cfg.delims.sanitize_inner(inner);
        format!("{}{} {} {}{}", self.cfg.delims.bs, l, inner, r, self.cfg.delims.be)
    }
    fn var(&mut self, inner: &str) -> String {
        let (l, r) = self.ws();
        let inner = self.cfg.delims.sanitize_inner(inner);
        format!("{}{} {} {}{}", self.cfg.delims.vs, l, inner, r, self.cfg.delims.ve)
    }
    fn ws(&mut self) -> (&'static str, &'static str) {
        if self.cfg.ws_markers {
            (if self.rng.chance(1, 5) { "-" } else { "" }, if self.rng.chance(1, 5) { "-" } else { "" })
        } else {
            ("", "")
        }
    }

    // ---------------------------------------------------------------- text

    fn text(&mut self) -> String {
        const ASCII: &[&str] = &[
            "hello", " ", "\n", "<p>", "</p>", "<div class=\"x\">", "&amp;", "&", "'", "\"", "world", "  ", "\n\n",
            "{", "}", "%}", "}}", "#}", "{ {", "a < b", "1 > 0", "-", "=", "/", "<!-- c -->", "\t", "x", "0",
        ];
        const UNI: &[&str] = &[
            "\u{e9}", "\u{1F389}", "\u{fc}ber", "\u{4e2d}\u{6587}", "\u{c2}\u{a9}", "\u{ae}", "\u{b0}C", "\u{b1}1", "a\u{300}",
            // non-ASCII white space and CRLF right where whitespace control trims
            "\u{a0}", "\u{2003}", "\u{3000}", "\r\n", " \r\n ", "\u{a0} ", " \u{2003}",
        ];
        let n = self.rng.range(1, 5);
        let mut t = String::new();
        if self.rng.chance(1, 4) {
            let cp = self.cfg.delims.cross_pairs();
            if !cp.is_empty() {
                t.push_str(&self.rng.pick(&cp));
                t.push_str("42");
            }
        }
        for _ in 0..n {
            if self.cfg.unicode_text && self.rng.chance(1, 3) {
                t.push_str(self.rng.pick(UNI));
            } else {
                t.push_str(self.rng.pick(ASCII));
            }
        }
        self.cfg.delims.sanitize(&t)
    }

    fn str_lit(&mut self) -> String {
        const LITS: &[&str] = &[
            "", "a", "abc", "Hello World", "<b>", "a&b", "it's", "x y z", "\u{e9}t\u{e9}", "\u{1F389}", "line\nbreak", "  pad ", "1", "42", "3.5",
            "say \"hi\"", "<script>", "/", "a,b,c", "k", "\u{131}x", "\u{fb01}n", "\u{130}", "\u{149}a b", "\u{17f}\u{df}",
        ];
        let s = self.rng.pick(LITS).to_string();
        if self.rng.chance(1, 6) && !s.contains('\'') && !s.contains('\n') && !s.contains('\\') {
            format!("'{}'", s.replace('"', "\\\""))
        } else if self.rng.chance(1, 12) && !s.contains('`') && !s.contains('\n') && !s.contains('\\') && !s.contains('"') {
            format!("`{}`", s)
        } else {
            format!("\"{}\"", escape_str_lit(&s))
        }
    }

    // ---------------------------------------------------------------- variables

    fn vars_of(&self, env: &Env, pred: impl Fn(Kind) -> bool) -> Vec<String> {
        let mut out: Vec<String> = env.vars.iter().filter(|(_, k)| pred(*k)).map(|(n, _)| n.clone()).collect();
        if env.ctx_visible {
            out.extend(SCHEMA.iter().filter(|(_, k)| pred(*k)).map(|(n, _)| n.to_string()));
        }
        out
    }

    fn pick_var(&mut self, env: &Env, kind: Kind) -> Option<String> {
        let vs = self.vars_of(env, |k| k == kind);
        if vs.is_empty() {
            None
        } else {
            Some(self.rng.pick(&vs).clone())
        }
    }

    fn undefined_name(&mut self) -> String {
        self.rng.pick(&["nope", "missing_var", "undefined_x", "user.nope", "m.absent", "nope.deeper", "loop.index", "loop.last", "__tera_loop_zz", "__tera_loop_index1", "__tera_context.zz"]).to_string()
    }

    // ---------------------------------------------------------------- expressions

    /// An expression that cannot fail to evaluate (literal or a plain defined name).
    fn safe_atom(&mut self, env: &Env, kind: Kind) -> String {
        if self.rng.chance(1, 2) {
            if let Some(v) = self.pick_var(env, kind) {
                return v;
            }
        }
        self.literal(kind)
    }

    fn literal(&mut self, kind: Kind) -> String {
        match kind {
            Kind::Str | Kind::Any => self.str_lit(),
            Kind::Int => self.rng.irange(0, 12).to_string(),
            Kind::Float => format!("{}.{}", self.rng.below(10), self.rng.below(10)),
            Kind::Bool => self.rng.pick(&["true", "false", "True", "False"]).to_string(),
            Kind::ArrInt => format!("[{}]", (0..self.rng.below(4)).map(|_| self.rng.irange(0, 9).to_string()).collect::<Vec<_>>().join(", ")),
            Kind::ArrStr => {
                let n = self.rng.below(3);
                let items: Vec<String> = (0..n).map(|_| self.str_lit()).collect();
                format!("[{}]", items.join(", "))
            }
            Kind::ArrAny => {
                let n = self.rng.below(4);
                let items: Vec<String> = (0..n)
                    .map(|_| {
                        let k = self.rng.pick(&[Kind::Str, Kind::Int, Kind::Bool, Kind::Float]);
                        self.literal(k)
                    })
                    .collect();
                format!("[{}]", items.join(", "))
            }
            Kind::ArrUser => "[{\"name\": \"lit\", \"age\": 3, \"group\": \"a\", \"tags\": [], \"active\": true}]".to_string(),
            Kind::Map => {
                let n = self.rng.below(4);
                let mut items = Vec::new();
                for i in 0..n {
                    let k = self.rng.pick(&[Kind::Str, Kind::Int, Kind::Bool]);
                    let v = self.literal(k);
                    if self.rng.chance(1, 8) {
                        items.push(format!("{}: {}", i, v));
                    } else {
                        items.push(format!("\"{}{}\": {}", self.rng.pick(&["k", "a", "z"]), i, v));
                    }
                }
                format!("{{{}}}", items.join(", "))
            }
            Kind::User => "{\"name\": \"lit\", \"age\": 3, \"group\": \"a\", \"tags\": [\"t\"], \"active\": false}".to_string(),
            Kind::Bytes => "\"bytes\"".to_string(),
            Kind::NoneK => self.rng.pick(&["none", "None", "null"]).to_string(),
        }
    }

    fn expr(&mut self, env: &Env, want: Kind, depth: usize) -> String {
        // deliberately wrong operand kinds / undefined names at the configured rate
        if self.rng.below(1000) < self.cfg.undefined {
            return self.undefined_name();
        }
        let want = if self.rng.below(1000) < self.cfg.ill_typed {
            self.rng.pick(&[Kind::Str, Kind::Int, Kind::Float, Kind::Bool, Kind::ArrInt, Kind::Map, Kind::NoneK, Kind::Bytes, Kind::Any])
        } else {
            want
        };
        if depth == 0 {
            return self.atom(env, want);
        }
        let d = depth - 1;
        match want {
            Kind::Str => match self.rng.below(22) {
                0..=3 => self.atom(env, Kind::Str),
                4 => format!("{} ~ {}", self.expr_p(env, Kind::Str, d), self.expr_p(env, Kind::Any, d)),
                5 => format!("{} | {}", self.expr_p(env, Kind::Str, d), self.rng.pick(&["upper", "lower", "trim", "capitalize", "title", "trim_start", "trim_end", "escape_html", "escape_xml", "newlines_to_br", "safe", "indent", "str"])),
                6 => format!("{} | str", self.expr_p(env, Kind::Any, d)),
                7 => format!("{}[{}:]", self.expr_p(env, Kind::Str, d), self.rng.irange(-2, 3)),
                8 => {
                    let a = self.rng.irange(-3, 3);
                    let b = self.rng.irange(-3, 5);
                    if self.rng.chance(1, 3) {
                        // bounds and step taken from the context (128-bit extremes included)
                        let (x, y, z) = (self.slice_operand(env), self.slice_operand(env), self.slice_operand(env));
                        slice_form(&self.expr_p(env, Kind::Str, d), &x, &y, &z)
                    } else {
                        format!("{}[{}:{}]", self.expr_p(env, Kind::Str, d), a, b)
                    }
                }
                9 => format!("{} | truncate(length={})", self.expr_p(env, Kind::Str, d), self.rng.below(6)),
                10 => {
                    let from = self.str_lit();
                    let to = self.str_lit();
                    format!("{} | replace(from={}, to={})", self.expr_p(env, Kind::Str, d), from, to)
                }
                11 => format!("{} if {} else {}", self.expr_p(env, Kind::Str, d), self.expr_p(env, Kind::Bool, d), self.expr_p(env, Kind::Str, d)),
                12 => {
                    let dv = self.safe_atom(env, Kind::Str);
                    format!("{} | default(value={})", self.maybe_undefined(env, Kind::Str, d), dv)
                }
                13 => {
                    let sep = self.str_lit();
                    format!("{} | join(sep={})", self.expr_p(env, Kind::ArrAny, d), sep)
                }
                14 => format!("{}[{}]", self.expr_p(env, Kind::Str, d), self.rng.irange(-2, 3)),
                15 => format!("{} | indent(width={}, first={})", self.expr_p(env, Kind::Str, d), self.rng.below(5), self.rng.pick(&["true", "false"])),
                16 => format!("{} | pluralize", self.expr_p(env, Kind::Int, d)),
                17 => format!("{} | first", self.expr_p(env, Kind::ArrStr, d)),
                18 => format!("{} | trim(pat={})", self.expr_p(env, Kind::Str, d), self.str_lit()),
                19 if self.cfg.custom => format!("{} | sim_echo", self.expr_p(env, Kind::Str, d)),
                20 if self.cfg.custom => format!("sim_fn(v={})", self.safe_atom(env, Kind::Str)),
                _ => self.comp_call_inline(env, d).unwrap_or_else(|| self.atom(env, Kind::Str)),
            },
            Kind::Int => match self.rng.below(16) {
                0..=3 => self.atom(env, Kind::Int),
                4 => {
                    let op = self.rng.pick(&["+", "-", "*", "//", "%"]);
                    if env.ctx_visible && self.rng.chance(1, 3) {
                        // both operands at the edges of the integer range (i128::MIN op -1 ...)
                        let l = self.rng.pick(&["n_big", "n_edge", "(0 - n_edge - 1)", "(0 - n_edge)", "(-9223372036854775807 - 1)", "(n_big + 1)", "0"]);
                        let r = self.rng.pick(&["-1", "(0 - 1)", "0", "1", "2", "n_big", "n_edge", "(0 - n_edge - 1)", "-n_small", "(1 - 2)"]);
                        match self.rng.below(8) {
                            // the other operators at the edges: negation, abs, powers, float -> int
                            0 => format!("-{}", l),
                            1 => format!("{} | abs", l),
                            2 => format!("{} ** {}", self.rng.pick(&["0", "1", "(0 - 1)", "2", "(0 - 2)", "10", "n_big", "n_edge"]), self.rng.pick(&["0", "1", "2", "126", "127", "128", "(0 - 1)", "n_small", "n_big", "n_edge"])),
                            3 => format!("{} | {}", self.rng.pick(&["1e39", "(0 - 1e39)", "n_odd", "1.7e308", "170141183460469231731687303715884105727.0", "0.5", "(0 - 0.5)"]), self.rng.pick(&["int", "round | int", "round(precision=0) | int", "abs | int"])),
                            // both operands the same extreme (u64::MAX * u64::MAX, i64::MIN * i64::MIN ...)
                            4 | 5 => {
                                let x = self.rng.pick(&["n_big", "n_edge", "n_int"]);
                                format!("{} {} {}", x, self.rng.pick(&["*", "+", "-", "*"]), self.rng.pick(&[x, "n_big", "n_edge"]))
                            }
                            _ => format!("{} {} {}", l, op, r),
                        }
                    } else {
                        format!("{} {} {}", self.expr_p(env, Kind::Int, d), op, self.expr_p(env, Kind::Int, d))
                    }
                }
                5 => format!("{} ** {}", self.expr_p(env, Kind::Int, d), self.rng.below(5)),
                6 => format!("{} | length", self.expr_p(env, self.rng.pick(&[Kind::ArrAny, Kind::Str, Kind::Map, Kind::ArrInt]), d)),
                7 => format!("{} | wordcount", self.expr_p(env, Kind::Str, d)),
                8 => format!("{} | abs", self.expr_p(env, Kind::Int, d)),
                9 => format!("{} | int", self.expr_p(env, self.rng.pick(&[Kind::Str, Kind::Float, Kind::Int]), d)),
                10 if env.in_loop => self.rng.pick(&["loop.index", "loop.index0", "loop.length"]).to_string(),
                11 => format!("{}[{}]", self.expr_p(env, Kind::ArrInt, d), self.rng.irange(-2, 3)),
                12 => format!("{} | {}", self.expr_p(env, Kind::ArrInt, d), self.rng.pick(&["first", "last", "nth(n=1)"])),
                13 => format!("-{}", self.atom_p(env, Kind::Int)),
                14 => format!("{} if {} else {}", self.expr_p(env, Kind::Int, d), self.expr_p(env, Kind::Bool, d), self.expr_p(env, Kind::Int, d)),
                _ => format!("{} | round | int", self.expr_p(env, Kind::Float, d)),
            },
            Kind::Float => match self.rng.below(8) {
                0..=2 => self.atom(env, Kind::Float),
                3 => format!("{} / {}", self.expr_p(env, Kind::Int, d), self.expr_p(env, Kind::Int, d)),
                4 => {
                    let op = self.rng.pick(&["+", "-", "*", "/", "//", "%", "**"]);
                    format!("{} {} {}", self.expr_p(env, Kind::Float, d), op, self.expr_p(env, self.rng.pick(&[Kind::Float, Kind::Int]), d))
                }
                5 => format!("{} | round(precision={}, method={})", self.expr_p(env, Kind::Float, d), self.rng.below(3), self.rng.pick(&["\"common\"", "\"ceil\"", "\"floor\""])),
                6 => format!("{} | float", self.expr_p(env, self.rng.pick(&[Kind::Str, Kind::Int, Kind::Float]), d)),
                _ => format!("{} | abs", self.expr_p(env, Kind::Float, d)),
            },
            Kind::Bool => match self.rng.below(19) {
                0..=1 => self.atom(env, Kind::Bool),
                2 => {
                    let k = self.rng.pick(&[Kind::Int, Kind::Str, Kind::Float, Kind::Any, Kind::ArrInt, Kind::Map]);
                    let op = self.rng.pick(&["==", "!="]);
                    format!("{} {} {}", self.expr_p(env, k, d), op, self.expr_p(env, k, d))
                }
                3 => {
                    let k = self.rng.pick(&[Kind::Int, Kind::Str, Kind::Float, Kind::Int]);
                    let op = self.rng.pick(&["<", ">", "<=", ">="]);
                    format!("{} {} {}", self.expr_p(env, k, d), op, self.expr_p(env, k, d))
                }
                4 => format!("not {}", self.expr_p(env, Kind::Any, d)),
                5 => format!("{} and {}", self.expr_p(env, Kind::Any, d), self.expr_p(env, Kind::Any, d)),
                6 => format!("{} or {}", self.expr_p(env, Kind::Any, d), self.expr_p(env, Kind::Any, d)),
                7 => format!("{} {} {}", self.expr_p(env, Kind::Int, d), self.rng.pick(&["in", "not in"]), self.expr_p(env, Kind::ArrInt, d)),
                8 => format!("{} {} {}", self.expr_p(env, Kind::Str, d), self.rng.pick(&["in", "not in"]), self.expr_p(env, self.rng.pick(&[Kind::Str, Kind::Map, Kind::ArrStr]), d)),
                9 => {
                    let t = self.rng.pick(&["defined", "undefined", "string", "number", "map", "bool", "array", "integer", "float", "none", "iterable"]);
                    let neg = if self.rng.chance(1, 4) { "is not" } else { "is" };
                    format!("{} {} {}", self.maybe_undefined(env, Kind::Any, d), neg, t)
                }
                10 => format!("{} is {}", self.expr_p(env, Kind::Int, d), self.rng.pick(&["odd", "even", "divisible_by(divisor=2)", "divisible_by(divisor=0)"])),
                11 => {
                    let pat = self.str_lit();
                    format!("{} is {}(pat={})", self.expr_p(env, Kind::Str, d), self.rng.pick(&["starting_with", "ending_with", "containing"]), pat)
                }
                12 => format!("{} is containing(pat={})", self.expr_p(env, self.rng.pick(&[Kind::ArrInt, Kind::Map]), d), self.safe_atom(env, Kind::Int)),
                13 if env.in_loop => self.rng.pick(&["loop.first", "loop.last"]).to_string(),
                14 if self.cfg.custom => format!("{} is sim_test", self.expr_p(env, Kind::Any, d)),
                // a negated group that ENDS in a test and may be left early (short circuit, unused
                // ternary branch): the negation must apply to whatever the group leaves behind
                16 | 17 => {
                    let t = self.rng.pick(&["defined", "undefined", "string", "number", "none", "iterable", "odd"]);
                    let last = self.maybe_undefined(env, Kind::Any, 0);
                    match self.rng.below(3) {
                        0 => format!("not ({} and {} is {})", self.maybe_undefined(env, Kind::Any, d), last, t),
                        1 => format!("not ({} or {} is {})", self.maybe_undefined(env, Kind::Any, d), last, t),
                        _ => format!("not ({} if {} else {} is {})", self.expr_p(env, Kind::Bool, d), self.expr_p(env, Kind::Bool, d), last, t),
                    }
                }
                18 => format!("not ({} is {})", self.maybe_undefined(env, Kind::Any, d), self.rng.pick(&["defined", "string", "even"])),
                _ => format!("{} if {} else {}", self.expr_p(env, Kind::Bool, d), self.expr_p(env, Kind::Bool, d), self.expr_p(env, Kind::Bool, d)),
            },
            Kind::ArrInt | Kind::ArrStr | Kind::ArrAny | Kind::ArrUser => match self.rng.below(16) {
                0..=3 => self.atom(env, want),
                4 if want != Kind::ArrUser && want != Kind::ArrStr => format!("range(end={})", self.rng.below(7)),
                5 if want != Kind::ArrUser && want != Kind::ArrStr => format!("range(start={}, end={}, step_by={})", self.rng.below(3), self.rng.range(3, 8), self.rng.range(1, 3)),
                6 => format!("{} | {}", self.expr_p(env, want, d), self.rng.pick(&["reverse", "sort", "unique"])),
                7 => format!("{}[{}:]", self.expr_p(env, want, d), self.rng.irange(-2, 2)),
                8 => {
                    if self.rng.chance(1, 3) {
                        let (x, y, z) = (self.slice_operand(env), self.slice_operand(env), self.slice_operand(env));
                        slice_form(&self.expr_p(env, want, d), &x, &y, &z)
                    } else {
                        format!("{}[::{}]", self.expr_p(env, want, d), self.rng.pick(&["-1", "2", "1", "-2"]))
                    }
                }
                9 if want != Kind::ArrUser => format!("{} | split(pat={})", self.expr_p(env, Kind::Str, d), self.rng.pick(&["\" \"", "\",\"", "\"a\"", "\"\""])),
                10 if want != Kind::ArrUser => {
                    let v = format!("x{}", depth);
                    let mut inner = env.clone();
                    inner.vars.push((v.clone(), Kind::Int));
                    let body = self.expr_p(&inner, Kind::Int, d.min(1));
                    let cond = if self.rng.chance(1, 2) { format!(" if {}", self.expr_p(&inner, Kind::Bool, 0)) } else { String::new() };
                    format!("[{} for {} in {}{}]", body, v, self.expr_p(env, Kind::ArrInt, d), cond)
                }
                11 if want != Kind::ArrUser => format!("[...{}, {}]", self.expr_p(env, want, d), self.literal(Kind::Int)),
                12 if want != Kind::ArrUser && want != Kind::ArrStr => format!("{} | {}", self.expr_p(env, Kind::Map, d), self.rng.pick(&["keys", "values", "pairs", "keys | sort", "values | sort", "pairs | sort"])),
                13 if want == Kind::ArrUser || want == Kind::ArrAny => format!("{} | sort(attribute={})", self.expr_p(env, Kind::ArrUser, d), self.rng.pick(&["\"age\"", "\"name\"", "\"nope\"", "\"group\""])),
                14 if want != Kind::ArrUser => {
                    let k = format!("k{}", depth);
                    format!("[{} for {}, _ in {}]", k, k, self.expr_p(env, Kind::Map, d))
                }
                _ => self.atom(env, want),
            },
            Kind::Map | Kind::User => match self.rng.below(8) {
                0..=2 => self.atom(env, want),
                3 => {
                    let v = self.expr_p(env, Kind::Any, d);
                    format!("{{...{}, \"c\": {}}}", self.expr_p(env, Kind::Map, d), v)
                }
                4 => {
                    let v = self.expr_p(env, Kind::Any, d);
                    let v2 = self.expr_p(env, Kind::Int, d);
                    format!("{{\"a\": {}, \"b\": {}, \"z\": 0}}", v, v2)
                }
                5 => format!("{} | group_by(attribute={})", self.expr_p(env, Kind::ArrUser, d), self.rng.pick(&["\"group\"", "\"age\"", "\"active\"", "\"nope\""])),
                6 => format!("{{...{}, ...{}}}", self.expr_p(env, Kind::Map, d), self.expr_p(env, Kind::Map, d)),
                _ => self.atom(env, want),
            },
            Kind::Bytes | Kind::NoneK => self.atom(env, want),
            Kind::Any if self.rng.chance(1, 6) => self.odd_builtin(env),
            Kind::Any => {
                let k = self.rng.pick(&[Kind::Str, Kind::Str, Kind::Int, Kind::Float, Kind::Bool, Kind::ArrInt, Kind::ArrAny, Kind::Map, Kind::NoneK, Kind::Bytes, Kind::User, Kind::ArrUser]);
                if k == Kind::Any {
                    self.atom(env, Kind::Any)
                } else if self.rng.chance(1, 12) && env.ctx_visible && env.mult == 1 && self.dump_count < 2 {
                    // The context dump contains every assigned variable: captured into a `set`
                    // inside a loop it doubles per iteration (2^34 bytes for a 34-character loop
                    // — a generator hazard met in practice, not an engine defect). Outside loops,
                    // at most twice per template.
                    self.dump_count += 1;
                    "__tera_context".to_string()
                } else {
                    self.expr(env, k, d)
                }
            }
        }
    }

    /// A built-in filter / test / function with odd but type-correct arguments (extremes, zero,
    /// negative, empty and multi-byte strings). At most one argument can fail to *evaluate*.
    fn odd_builtin(&mut self, env: &Env) -> String {
        let int = |g: &mut Self| -> String {
            let pool = ["0", "1", "2", "8", "16", "36", "37", "255", "1000", "100000", "n_int", "n_big", "n_edge", "n_small", "(0 - 1)", "(0 - 40)"];
            let v = g.rng.pick(&pool);
            if !env.ctx_visible && v.starts_with("n_") {
                "3".to_string()
            } else {
                v.to_string()
            }
        };
        let st = |g: &mut Self| -> String {
            let pool = ["\"\"", "\"\u{e9}\"", "\"\u{1F389}\"", "\" \"", "\"a\u{300}\"", "\"a\u{e9}\"", "\"1\u{20ac}0\"", "\"f\u{1F600}\"", "\"\u{e9}\u{1F389}x\u{e9}\"", "s_uni", "s_empty", "s_html", "\"ab\""];
            let v = g.rng.pick(&pool);
            if !env.ctx_visible && v.starts_with("s_") {
                "\"\u{e9}t\u{e9}\"".to_string()
            } else {
                v.to_string()
            }
        };
        match self.rng.below(24) {
            21 => {
                // containment with odd operands: empty / multi-byte needles, non-string keys,
                // bytes, none, NaN, a needle longer than the haystack
                let vis = env.ctx_visible;
                let needle = self.rng.pick(&["\"\"", "\"\u{e9}\"", "\"\u{1F389}\u{e9}\"", "\"a\u{300}\"", "1", "true", "none", "1.5", "n_big", "n_odd", "byt", "[1]", "{}", "s_uni", "\"a very long needle that is longer than most haystacks here\""]);
                let hay = self.rng.pick(&["\"\"", "\"\u{e9}t\u{e9}\"", "s_uni", "s_empty", "byt", "m", "mm", "arr_i", "arr_mix", "arr_e", "[none, 1.5]", "{\"1\": 2}", "user", "none", "n_int"]);
                let fix = |v: &str| if !vis && v.chars().next().map(|c| c.is_ascii_lowercase()).unwrap_or(false) && !["none", "true"].contains(&v) { "\"x\"".to_string() } else { v.to_string() };
                format!("{} {} {}", fix(needle), self.rng.pick(&["in", "not in"]), fix(hay))
            }
            22 => {
                // spreads of operands of every kind into array and map literals
                let vis = env.ctx_visible;
                let op = |g: &mut Self| -> String {
                    let v = g.rng.pick(&["m", "user", "arr_i", "arr_mix", "s_uni", "none", "byt", "n_big", "nope", "[1, 2]", "{\"a\": 1}", "\"ab\"", "1", "mm", "arr_e", "{}"]);
                    if !vis && v.chars().next().map(|c| c.is_ascii_lowercase()).unwrap_or(false) && v != "none" { "[3]".to_string() } else { v.to_string() }
                };
                if self.rng.chance(1, 2) {
                    format!("[...{}, ...{}, 1] | length", op(self), op(self))
                } else {
                    format!("{{...{}, \"k\": 1, ...{}}} | length", op(self), op(self))
                }
            }
            23 => format!("[x for x in [...{}, 1] if x] | length", self.atom_p(env, Kind::ArrAny)),
            16 => {
                // range() with bounds and step at the edges of i128 (length arithmetic); `| length`
                // so that a legal 100 000-element result costs nothing to print. Only constants
                // and plain names: at most one argument may fail to evaluate.
                let vis = env.ctx_visible;
                let e = self.rng.pick(&["n_big", "n_big", "n_edge", "0", "(0 - 1)", "n_int"]);
                let s0 = self.rng.pick(&["", "", "n_big", "n_edge", "0", "(0 - 1)"]);
                let t = self.rng.pick(&["", "(0 - 1)", "(0 - 1)", "1", "2", "n_big", "0", "-1"]);
                let fix = |v: &str| if !vis && v.starts_with("n_") { "7".to_string() } else { v.to_string() };
                let mut args = vec![format!("end={}", fix(e))];
                if !s0.is_empty() {
                    args.push(format!("start={}", fix(s0)));
                }
                if !t.is_empty() {
                    args.push(format!("step_by={}", fix(t)));
                }
                format!("range({}) | length", args.join(", "))
            }
            17 => format!("{} | join(sep={})", self.atom_p(env, Kind::ArrAny), self.rng.pick(&["\"\"", "\"\u{e9}\"", "1", "none", "\", \"", "[1]"])),
            18 => format!("{} | get(key={}, default={})", self.atom_p(env, Kind::Map), self.rng.pick(&["\"k0\"", "\"\"", "0", "1", "true", "none", "\"a.b\"", "1.5"]), int(self)),
            19 => format!(
                "{} | {}(attribute={}) | length",
                self.atom_p(env, self.rng.pick(&[Kind::ArrUser, Kind::ArrAny, Kind::ArrInt])),
                self.rng.pick(&["sort", "unique", "group_by"]),
                self.rng.pick(&["\"name\"", "\"age\"", "\"tags\"", "\"\"", "\"a.b\"", "\"name.x\"", "\".\"", "\"\u{e9}\"", "\"active\"", "\"tags.0\""])
            ),
            20 => format!("{} is {}", int(self), self.rng.pick(&["odd", "even", "divisible_by(divisor=(0 - 1))", "divisible_by(divisor=0)"])),
            0 => format!("{} | truncate(length={}, end={})", st(self), int(self), st(self)),
            1 => format!("{} | indent(width={}, first=true, blank=true)", st(self), int(self)),
            2 => format!("{} | round(precision={}, method={})", self.atom_p(env, Kind::Float), int(self), self.rng.pick(&["\"common\"", "\"ceil\"", "\"floor\"", "\"nope\""])),
            3 => format!("{} | int(base={})", st(self), int(self)),
            4 => format!("{} | int(base={})", self.rng.pick(&["\"ff\"", "\"-12\"", "\"0x1f\"", "\"zz\"", "\"1e3\"", "\" 7 \"", "\"99999999999999999999999999999999999999999\""]), int(self)),
            5 => format!("{} | split(pat={}) | length", st(self), st(self)),
            6 => format!("{} | replace(from={}, to={})", st(self), st(self), st(self)),
            7 => format!("{} | nth(n={})", self.atom_p(env, Kind::ArrAny), int(self)),
            8 => {
                // (never 100 000 elements: inside loops and under exhaustive fault injection one
                // such call turns a run into minutes)
                let small = |g: &mut Self| {
                    let v = int(g);
                    if v == "100000" { "1000".to_string() } else { v }
                };
                format!("range(start={}, end={}, step_by={}) | length", small(self), small(self), small(self))
            }
            9 => format!("{} | trim(pat={})", st(self), st(self)),
            10 => format!("{} is divisible_by(divisor={})", int(self), int(self)),
            11 => format!("{} is {}(pat={})", st(self), self.rng.pick(&["starting_with", "ending_with", "containing"]), st(self)),
            12 => format!("{} | pluralize(singular={}, plural={})", int(self), st(self), st(self)),
            13 => format!("{} | {} | {}", st(self), self.rng.pick(&["title", "capitalize", "wordcount", "reverse", "length", "upper", "escape_xml", "newlines_to_br"]), self.rng.pick(&["str", "length", "safe", "upper"])),
            14 => format!("{} | abs", int(self)),
            _ => format!("{} | float | round(precision={})", st(self), int(self)),
        }
    }

    fn slice_operand(&mut self, env: &Env) -> String {
        match self.rng.below(8) {
            0 => String::new(),
            1 => "none".to_string(),
            2 => self.rng.irange(-3, 4).to_string(),
            3 if env.ctx_visible => "n_big".to_string(),
            4 if env.ctx_visible => "n_edge".to_string(),
            5 if env.ctx_visible => "n_int".to_string(),
            6 if env.ctx_visible => "n_small".to_string(),
            _ => self.atom_p(env, Kind::Int),
        }
    }

    /// Parenthesised when needed so it can be an operand of anything.
    fn expr_p(&mut self, env: &Env, want: Kind, depth: usize) -> String {
        let e = self.expr(env, want, depth);
        if is_simple(&e) {
            e
        } else {
            format!("({})", e)
        }
    }

    fn atom_p(&mut self, env: &Env, want: Kind) -> String {
        let e = self.atom(env, want);
        if is_simple(&e) {
            e
        } else {
            format!("({})", e)
        }
    }

    fn maybe_undefined(&mut self, env: &Env, want: Kind, depth: usize) -> String {
        if self.rng.chance(1, 3) {
            self.undefined_name()
        } else {
            self.expr_p(env, want, depth)
        }
    }

    fn atom(&mut self, env: &Env, want: Kind) -> String {
        // variable (with attribute paths where the kind allows) or literal
        let use_var = self.rng.chance(2, 3);
        if use_var {
            match want {
                Kind::Str => {
                    let mut opts = self.vars_of(env, |k| k == Kind::Str);
                    if env.ctx_visible {
                        opts.extend(["user.name", "m.k", "users[0].name", "arr_s[0]", "user.group", "users?[5]?.name | default(value=\"d\")", "user[\"name\"]"].iter().map(|s| s.to_string()));
                    }
                    for (n, k) in &env.vars {
                        if *k == Kind::User {
                            opts.push(format!("{}.name", n));
                            opts.push(format!("{}.group", n));
                        }
                    }
                    if !opts.is_empty() {
                        return self.rng.pick(&opts).clone();
                    }
                }
                Kind::Int => {
                    let mut opts = self.vars_of(env, |k| k == Kind::Int);
                    if env.ctx_visible {
                        opts.extend(["user.age", "m.z", "arr_i[0]", "users[0].age", "arr_i[-1]"].iter().map(|s| s.to_string()));
                    }
                    for (n, k) in &env.vars {
                        if *k == Kind::User {
                            opts.push(format!("{}.age", n));
                        }
                    }
                    if !opts.is_empty() {
                        return self.rng.pick(&opts).clone();
                    }
                }
                Kind::Bool => {
                    let mut opts = self.vars_of(env, |k| k == Kind::Bool);
                    if env.ctx_visible {
                        opts.push("user.active".to_string());
                    }
                    if !opts.is_empty() {
                        return self.rng.pick(&opts).clone();
                    }
                }
                Kind::ArrAny => {
                    let opts = self.vars_of(env, |k| matches!(k, Kind::ArrAny | Kind::ArrInt | Kind::ArrStr | Kind::ArrUser));
                    if !opts.is_empty() {
                        return self.rng.pick(&opts).clone();
                    }
                }
                Kind::ArrStr => {
                    let mut opts = self.vars_of(env, |k| k == Kind::ArrStr);
                    if env.ctx_visible {
                        opts.push("user.tags".to_string());
                    }
                    if !opts.is_empty() {
                        return self.rng.pick(&opts).clone();
                    }
                }
                Kind::Map => {
                    let opts = self.vars_of(env, |k| matches!(k, Kind::Map | Kind::User));
                    if !opts.is_empty() {
                        return self.rng.pick(&opts).clone();
                    }
                }
                Kind::Any => {
                    let opts = self.vars_of(env, |_| true);
                    if !opts.is_empty() {
                        return self.rng.pick(&opts).clone();
                    }
                }
                k => {
                    if let Some(v) = self.pick_var(env, k) {
                        return v;
                    }
                }
            }
        }
        self.literal(want)
    }

    // ---------------------------------------------------------------- component calls

    /// Components callable from the current position (well-founded order, DESIGN.md §2.5).
    fn callable(&self, env: &Env) -> Vec<usize> {
        let mut out = Vec::new();
        for (i, c) in self.world.comps.iter().enumerate() {
            let ok = match env.comp {
                Some(me) => i < me,
                None => c.tpl <= env.tpl,
            };
            if ok && c.cost.saturating_mul(env.mult) + self.cur_cost <= self.cfg.cost_budget {
                out.push(i);
            }
        }
        out
    }

    fn comp_args(&mut self, env: &Env, c: &CompInfo, depth: usize) -> String {
        let mut parts: Vec<String> = Vec::new();
        // component attributes are compiled in source order (a Vec, unlike filter kwargs), so any
        // number of them may be arbitrary expressions
        for p in c.params.iter() {
            if p.has_default && self.rng.chance(1, 2) {
                continue;
            }
            if !p.has_default && self.rng.below(1000) < self.cfg.ill_typed / 2 {
                continue; // missing required argument (error path)
            }
            let kind = kind_of_type(p.ty.as_deref());
            let val = if self.rng.chance(1, 3) { self.expr(env, kind, depth) } else { self.safe_typed(env, kind, &p.sample) };
            if val.starts_with('"') && val.ends_with('"') && val.len() >= 2 && !val.contains('\\') && self.rng.chance(1, 2) && val.matches('"').count() == 2 {
                parts.push(format!("{}={}", p.name, val));
            } else if val == p.name && self.rng.chance(1, 2) {
                parts.push(p.name.clone()); // shorthand
            } else {
                parts.push(format!("{}={{{}}}", p.name, val));
            }
        }
        if c.rest && self.rng.chance(1, 2) {
            // an undeclared argument collected by `...rest`: a literal, any expression, or undefined
            let v = match self.rng.below(4) {
                0 => self.undefined_name(),
                1 => self.expr(env, Kind::Any, depth),
                _ => self.literal(Kind::Int),
            };
            parts.push(format!("extra1={{{}}}", v));
            if self.rng.chance(1, 2) {
                parts.push(format!("data_x={}", "\"rest\""));
            }
        } else if !c.rest && self.rng.below(1000) < self.cfg.ill_typed / 2 {
            parts.push("bogus={1}".to_string()); // at most one undeclared argument
        }
        if env.ctx_visible && (c.rest || c.params.iter().any(|p| p.name == "k")) && self.rng.chance(1, if c.rest { 4 } else { 10 }) {
            // (`m` may hold integer / boolean keys; the literal always does)
            parts.push(self.rng.pick(&["{...m}", "{...m}", "{...{1: \"x\", \"a\": 2, true: 3}}", "{...mm}"]).to_string());
        }
        parts.join(" ")
    }

    fn safe_typed(&mut self, env: &Env, kind: Kind, sample: &str) -> String {
        if self.rng.chance(1, 2) {
            if let Some(v) = self.pick_var(env, kind) {
                return v;
            }
        }
        if kind == Kind::Any {
            return self.literal(self.rng.pick(&[Kind::Str, Kind::Int, Kind::Bool]));
        }
        if self.rng.chance(1, 2) {
            sample.to_string()
        } else {
            self.literal(kind)
        }
    }

    fn comp_call_inline(&mut self, env: &Env, depth: usize) -> Option<String> {
        let cs = self.callable(env);
        if cs.is_empty() {
            return None;
        }
        let ci = self.rng.pick(&cs);
        let c = self.world.comps[ci].clone();
        self.cur_cost += c.cost.saturating_mul(env.mult);
        let args = self.comp_args(env, &c, depth);
        Some(format!("<{} {}/>", c.name, args))
    }

    // ---------------------------------------------------------------- statements

    fn body(&mut self, env: &Env) -> String {
        let n = self.rng.range(1, self.cfg.stmts_per_body.max(1));
        let mut out = String::new();
        for _ in 0..n {
            let s = self.stmt(env);
            // a statement starting with text right after text is fine; but never let text end
            // fuse with the next tag start
            out.push_str(&s);
        }
        out
    }

    fn stmt(&mut self, env: &Env) -> String {
        // every statement costs one unit per enclosing iteration
        self.cur_cost = self.cur_cost.saturating_add(env.mult);
        // bounded source size: error reports quote the offending source line, and generated
        // templates are mostly one line — a 100 KB template makes every error 200 KB
        self.stmt_count += 1;
        if self.stmt_count > 70 {
            return "\n".to_string();
        }
        let mut w = self.cfg.w;
        if self.cur_cost > self.cfg.cost_budget.saturating_mul(4) {
            // own work of a template stays bounded: only cheap statements from here on
            return if self.rng.chance(1, 2) { self.text() } else { self.print_stmt(env) };
        }
        if env.depth >= self.cfg.max_depth {
            for i in [2, 3, 5, 6, 8, 9] {
                w[i] = 0;
            }
        }
        if !env.blocks_allowed {
            w[8] = 0;
        }
        if env.tpl == 0 && env.comp.is_none() {
            w[7] = 0;
        }
        let kind = self.rng.weighted(&w);
        match kind {
            0 => self.text(),
            1 => self.print_stmt(env),
            2 => self.if_stmt(env),
            3 => self.for_stmt(env),
            4 => self.set_stmt(env),
            5 => self.setblock_stmt(env),
            6 => self.filtersec_stmt(env),
            7 => self.include_stmt(env),
            8 => self.block_stmt(env),
            9 => self.compcall_stmt(env),
            10 => {
                let body = self.rng.pick(&["{{ raw }}", "{% if %}", "plain", "<b>{#", "\u{e9}{{", " ", "\n", "\r\n", " \t ", "\u{a0}", "", "  x  ", "\n{% endra", "\u{3000}"]);
                if self.rng.chance(1, 2) {
                    // whitespace control on any of the four sides of a raw block, also around an
                    // empty or whitespace-only body
                    let d = self.cfg.delims.clone();
                    let m = |g: &mut Self| if g.rng.chance(1, 2) { "-" } else { "" };
                    let (a, b, c, e) = (m(self), m(self), m(self), m(self));
                    format!("{}{} raw {}{}{}{}{} endraw {}{}", d.bs, a, b, d.be, body, d.bs, c, e, d.be)
                } else {
                    let open = self.tag("raw");
                    let close = self.tag("endraw");
                    format!("{}{}{}", open, body, close)
                }
            }
            _ => {
                let (l, r) = self.ws();
                format!("{}{} {} {}{}", self.cfg.delims.cs, l, self.rng.pick(&["comment", "{{ x }}", "{% if %}", "\u{e9}", ""]), r, self.cfg.delims.ce)
            }
        }
    }

    fn print_stmt(&mut self, env: &Env) -> String {
        if let Some((_, has_anc)) = &env.cur_block {
            let p = if *has_anc { 4 } else { 40 };
            if env.mult == 1 && self.supers_in_tpl < 2 && self.rng.chance(1, p) {
                self.supers_in_tpl += 1;
                return self.var("super()");
            }
        }
        if env.comp.is_some() && self.rng.chance(1, 6) {
            return self.var(self.rng.pick(&["body", "body | safe", "body | upper", "body | default(value=\"\")", "body | default(value=\"\")"]));
        }
        let k = self.rng.pick(&[Kind::Str, Kind::Str, Kind::Str, Kind::Int, Kind::Float, Kind::Bool, Kind::Any, Kind::ArrAny, Kind::Map]);
        let d = self.rng.below(self.cfg.expr_depth + 1);
        let e = self.expr(env, k, d);
        self.var(&e)
    }

    fn if_stmt(&mut self, env: &Env) -> String {
        let mut inner = env.clone();
        inner.depth += 1;
        inner.blocks_allowed = false;
        let c = self.expr(env, Kind::Bool, self.rng.below(self.cfg.expr_depth + 1));
        let mut s = self.tag(&format!("if {}", c));
        s.push_str(&self.body(&inner));
        let n_elif = if self.rng.chance(1, 4) { self.rng.range(1, 2) } else { 0 };
        for _ in 0..n_elif {
            let c = self.expr(env, Kind::Any, self.rng.below(self.cfg.expr_depth + 1));
            s.push_str(&self.tag(&format!("elif {}", c)));
            s.push_str(&self.body(&inner));
        }
        if self.rng.chance(1, 2) {
            s.push_str(&self.tag("else"));
            s.push_str(&self.body(&inner));
        }
        s.push_str(&self.tag("endif"));
        s
    }

    fn for_stmt(&mut self, env: &Env) -> String {
        let mut inner = env.clone();
        inner.depth += 1;
        inner.blocks_allowed = false;
        inner.in_loop = true;
        inner.can_break = true;
        let v = format!("v{}", env.depth);
        let (head, bound) = match self.rng.below(10) {
            0 | 1 => {
                inner.vars.push((v.clone(), Kind::Int));
                (format!("for {} in {}", v, self.expr(env, Kind::ArrInt, self.rng.below(2))), 8)
            }
            2 => {
                inner.vars.push((v.clone(), Kind::Str));
                (format!("for {} in {}", v, self.expr(env, Kind::ArrStr, self.rng.below(2))), 8)
            }
            3 => {
                inner.vars.push((v.clone(), Kind::User));
                (format!("for {} in {}", v, self.atom(env, Kind::ArrUser)), 4)
            }
            4 => {
                inner.vars.push((v.clone(), Kind::Str));
                (format!("for {} in {}", v, self.atom(env, Kind::Str)), 40)
            }
            5 | 6 => {
                let k = format!("k{}", env.depth);
                inner.vars.push((k.clone(), Kind::Any));
                inner.vars.push((v.clone(), Kind::Any));
                (format!("for {}, {} in {}", k, v, self.expr(env, Kind::Map, self.rng.below(2))), 8)
            }
            7 => {
                inner.vars.push((v.clone(), Kind::Any));
                (format!("for {} in {}", v, self.expr(env, Kind::Map, self.rng.below(2))), 8)
            }
            8 => {
                inner.vars.push((v.clone(), Kind::Int));
                (format!("for {} in range(end={})", v, self.rng.pick(&["n_small", "3", "0", "5"])), 6)
            }
            _ if self.rng.chance(1, 4) => {
                // the less common iterables and targets: pairs out of arrays / strings, single
                // variables out of bytes / numbers / none, a variable shadowing its own iterable
                let k = format!("k{}", env.depth);
                inner.vars.push((k.clone(), Kind::Any));
                inner.vars.push((v.clone(), Kind::Any));
                let head = match self.rng.below(9) {
                    0 => format!("for {}, {} in [[1, 2], [3, 4]]", k, v),
                    1 => format!("for {}, {} in [1, [2], \"ab\", {{}}]", k, v),
                    2 => format!("for {}, {} in arr_i", k, v),
                    3 => format!("for {}, {} in s_uni", k, v),
                    4 => format!("for {} in byt", v),
                    5 => format!("for {} in {}", v, self.rng.pick(&["n_int", "none_v", "b_t", "n_f", "none", "true", "1.5"])),
                    6 => "for arr_i in arr_i".to_string(),
                    7 => format!("for {}, {} in {{1: 2, true: 3, \"a\": 4}}", k, v),
                    _ => format!("for {}, {} in mm", k, v),
                };
                (head, 40)
            }
            _ if self.rng.chance(1, 3) => {
                // `loop.*` in the iterable itself: refers to the enclosing loop, or to nothing
                inner.vars.push((v.clone(), Kind::Any));
                let it = self.rng.pick(&["loop.index", "arr_i[loop.index0:]", "[y for y in arr_i if y > loop.length]", "range(end=loop.length)", "[loop.first, loop.last]", "s_any[:loop.index]"]);
                (format!("for {} in {}", v, it), 40)
            }
            _ => {
                inner.vars.push((v.clone(), Kind::Any));
                (format!("for {} in {}", v, self.expr(env, Kind::Any, 0)), 40)
            }
        };
        if env.mult.saturating_mul(bound) > 2000 {
            return self.text();
        }
        inner.mult = env.mult.saturating_mul(bound);
        let mut s = self.tag(&head);
        s.push_str(&self.body(&inner));
        if self.rng.chance(1, 4) {
            let c = self.expr(&inner, Kind::Bool, 1);
            s.push_str(&self.tag(&format!("if {}", c)));
            let kw = self.rng.pick(&["break", "continue"]);
            s.push_str(&self.tag(kw));
            s.push_str(&self.tag("endif"));
            s.push_str(&self.text());
        }
        if self.rng.chance(1, 4) {
            s.push_str(&self.tag("else"));
            let mut e = env.clone();
            e.depth += 1;
            e.blocks_allowed = false;
            s.push_str(&self.body(&e));
        }
        s.push_str(&self.tag("endfor"));
        s
    }

    fn fresh_set_name(&mut self) -> String {
        self.set_counter += 1;
        format!("sv{}", self.set_counter % 5)
    }

    fn set_stmt(&mut self, env: &Env) -> String {
        let name = self.fresh_set_name();
        let k = self.rng.pick(&[Kind::Str, Kind::Int, Kind::ArrInt, Kind::Map, Kind::Any, Kind::Bool]);
        let e = self.expr(env, k, self.rng.below(self.cfg.expr_depth + 1));
        let kw = if self.rng.chance(1, 4) { "set_global" } else { "set" };
        // The variable is *probably* of kind k afterwards; we do not add it to env (sequential
        // scoping is not tracked) but later statements can refer to sv0..sv4 through Any atoms.
        self.tag(&format!("{} {} = {}", kw, name, e))
    }

    fn setblock_stmt(&mut self, env: &Env) -> String {
        let name = self.fresh_set_name();
        let mut inner = env.clone();
        inner.depth += 1;
        inner.can_break = false;
        let filters = match self.rng.below(5) {
            0 => " | upper",
            1 => " | trim | safe",
            2 => " | escape_html",
            _ => "",
        };
        let kw = if self.rng.chance(1, 5) { "set_global" } else { "set" };
        let mut s = self.tag(&format!("{} {}{}", kw, name, filters));
        s.push_str(&self.body(&inner));
        s.push_str(&self.tag("endset"));
        // (printing a captured loop output inside another heavy loop multiplies sizes)
        if self.rng.chance(2, 3) && env.mult <= 8 {
            s.push_str(&self.var(&format!("{}{}", name, self.rng.pick(&["", " | safe", " | length", " | upper"]))));
        }
        s
    }

    fn filtersec_stmt(&mut self, env: &Env) -> String {
        let mut inner = env.clone();
        inner.depth += 1;
        inner.can_break = false;
        let f = match self.rng.below(8) {
            0 => "upper".to_string(),
            1 => "lower".to_string(),
            2 => "trim".to_string(),
            3 => "safe".to_string(),
            4 => format!("replace(from={}, to={})", self.str_lit(), self.str_lit()),
            5 => "escape_html".to_string(),
            6 => format!("truncate(length={})", self.rng.below(20)),
            _ => "title".to_string(),
        };
        let mut s = self.tag(&format!("filter {}", f));
        s.push_str(&self.body(&inner));
        s.push_str(&self.tag("endfilter"));
        s
    }

    fn include_stmt(&mut self, env: &Env) -> String {
        // only lower-indexed templates: the include relation is a DAG by construction
        let limit = env.tpl;
        if limit == 0 {
            return self.text();
        }
        let mut cands: Vec<usize> = (0..limit).filter(|j| self.world.info[*j].cost.saturating_mul(env.mult) + self.cur_cost <= self.cfg.cost_budget).collect();
        if cands.is_empty() {
            return self.text();
        }
        self.rng.shuffle(&mut cands);
        let j = cands[0];
        self.cur_cost += self.world.info[j].cost.saturating_mul(env.mult);
        self.cur_includes.push(j);
        let full = self.world.info[j].name.clone();
        // refer through a fallback prefix when possible
        let mut name = full.clone();
        for p in &self.cfg.prefixes {
            if full.starts_with(p.as_str()) && self.rng.chance(2, 3) {
                let short = &full[p.len()..];
                // only if no exact-name twin or higher-priority twin would capture the short name
                if self.resolve(short).as_deref() == Some(full.as_str()) {
                    name = short.to_string();
                }
                break;
            }
        }
        self.tag(&format!("include \"{}\"", name))
    }

    /// Model of name resolution over the templates generated so far.
    fn resolve(&self, name: &str) -> Option<String> {
        if self.world.info.iter().any(|t| t.name == name) {
            return Some(name.to_string());
        }
        for p in &self.cfg.prefixes {
            let full = format!("{}{}", p, name);
            if self.world.info.iter().any(|t| t.name == full) {
                return Some(full);
            }
        }
        None
    }

    fn block_stmt(&mut self, env: &Env) -> String {
        self.block_counter += 1;
        let mut name = self.rng.pick(BLOCK_NAMES).to_string();
        let is_child = self.world.info.get(env.tpl).map(|t| t.extends.is_some()).unwrap_or(false);
        // Inside a child's override only brand-new names are nested: reusing a name an ancestor
        // defines can build a block-nesting cycle through super() whose render overflows the
        // stack (finding F4) — that shape is explored by the inherit family in a sacrificial
        // process, never here.
        if is_child || self.cur_blocks.contains(&name) {
            name = format!("nb{}_{}", env.tpl, self.block_counter);
            if self.cur_blocks.contains(&name) {
                return self.text();
            }
        }
        self.cur_blocks.push(name.clone());
        let has_anc = match self.world.info.get(env.tpl).and_then(|t| t.extends) {
            Some(p) => self.world.info[p].chain_blocks.contains(&name),
            None => false,
        };
        let mut inner = env.clone();
        inner.depth += 1;
        inner.cur_block = Some((name.clone(), has_anc));
        let mut s = self.tag(&format!("block {}", name));
        s.push_str(&self.body(&inner));
        if self.rng.chance(1, 2) {
            s.push_str(&self.tag(&format!("endblock {}", name)));
        } else {
            s.push_str(&self.tag("endblock"));
        }
        s
    }

    fn compcall_stmt(&mut self, env: &Env) -> String {
        let cs = self.callable(env);
        if cs.is_empty() {
            return self.text();
        }
        let ci = self.rng.pick(&cs);
        let c = self.world.comps[ci].clone();
        self.cur_cost += c.cost.saturating_mul(env.mult);
        let args = self.comp_args(env, &c, 1);
        if self.rng.chance(1, 2) {
            let call = format!("<{} {}/>", c.name, args);
            self.var(&call)
        } else {
            let mut inner = env.clone();
            inner.depth += 1;
            inner.can_break = false;
            let mut s = self.tag(&format!("<{} {}>", c.name, args));
            s.push_str(&self.body(&inner));
            s.push_str(&self.tag(&format!("</{}>", c.name)));
            s
        }
    }

    // ---------------------------------------------------------------- components

    fn gen_component(&mut self, tpl: usize, name: &str) -> String {
        let idx = self.world.comps.len();
        let n_params = self.rng.below(4);
        let mut params: Vec<Param> = Vec::new();
        const PNAMES: &[&str] = &["label", "k", "count", "flag", "items", "data", "title"];
        for _ in 0..n_params {
            let pname = self.rng.pick(PNAMES).to_string();
            if params.iter().any(|p| p.name == pname) {
                continue;
            }
            let (ty, sample): (Option<&str>, String) = match pname.as_str() {
                "label" | "title" | "k" => (if self.rng.chance(1, 2) { Some("string") } else { None }, "\"lbl\"".into()),
                "count" => (if self.rng.chance(1, 2) { Some(self.rng.pick(&["integer", "number"])) } else { None }, "3".into()),
                "flag" => (if self.rng.chance(1, 2) { Some("bool") } else { None }, "true".into()),
                "items" => (if self.rng.chance(1, 2) { Some("array") } else { None }, "[1, 2]".into()),
                _ => (if self.rng.chance(1, 2) { Some("map") } else { None }, "{\"a\": 1}".into()),
            };
            let has_default = self.rng.chance(1, 3);
            params.push(Param { name: pname, ty: ty.map(|s| s.to_string()), has_default, sample });
        }
        let rest = self.rng.chance(1, 4);
        let recursive = self.rng.chance(1, 12);
        let mut sig: Vec<String> = Vec::new();
        // required first is not demanded by the grammar; keep declaration order random
        for p in &params {
            let mut s = p.name.clone();
            if let Some(t) = &p.ty {
                if !(p.has_default && self.rng.chance(1, 2)) {
                    s.push_str(&format!(": {}", t));
                }
            }
            if p.has_default {
                s.push_str(&format!(" = {}", p.sample));
            }
            sig.push(s);
        }
        if rest {
            sig.push("...rest".to_string());
        }
        let meta = if self.rng.chance(1, 5) { " {\"kind\": \"ui\", \"v\": 2}" } else { "" };

        let mut env = Env {
            vars: params
                .iter()
                .map(|p| {
                    (
                        p.name.clone(),
                        match p.name.as_str() {
                            "label" | "title" | "k" => Kind::Str,
                            "count" => Kind::Int,
                            "flag" => Kind::Bool,
                            "items" => Kind::ArrAny,
                            _ => Kind::Map,
                        },
                    )
                })
                .collect(),
            ctx_visible: false,
            in_loop: false,
            can_break: false,
            blocks_allowed: false,
            cur_block: None,
            mult: 1,
            depth: 1,
            tpl,
            comp: Some(idx),
        };
        if rest {
            env.vars.push(("rest".to_string(), Kind::Map));
        }
        let saved_cost = self.cur_cost;
        let saved_includes = std::mem::take(&mut self.cur_includes);
        self.cur_cost = 1;
        let mut body = self.body(&env);
        if rest && self.rng.chance(1, 2) {
            // iterate the render-built rest map (exercises F1's site once repaired)
            let open = self.tag("for rk, rv in rest");
            let close = self.tag("endfor");
            let p1 = self.var("rk");
            let p2 = self.var("rv");
            body.push_str(&format!("{} {}=\"{}\"{}", open, p1, p2, close));
        }
        if recursive && params.iter().any(|p| p.name == "count") {
            // linear self-recursion, guarded (terminates) or not (hits the depth limit: error)
            let guard = if self.rng.chance(2, 3) { "count > 0 and count < 30" } else { "true" };
            let other: Vec<String> = params.iter().filter(|p| p.name != "count" && !p.has_default).map(|p| format!("{}={{{}}}", p.name, p.name)).collect();
            let open = self.tag(&format!("if {}", guard));
            // self-closing, or wrapping a body (the depth limit must count both forms)
            let call = if self.rng.chance(1, 2) {
                self.var(&format!("<{} count={{count - 1}} {}/>", name, other.join(" ")))
            } else {
                let o = self.tag(&format!("<{} count={{count - 1}} {}>", name, other.join(" ")));
                let c = self.tag(&format!("</{}>", name));
                let inner = if self.rng.chance(1, 2) { self.var("body") } else { "x".to_string() };
                format!("{}{}{}", o, inner, c)
            };
            let close = self.tag("endif");
            body.push_str(&format!("{}{}{}", open, call, close));
        }
        let cost = if recursive { self.cur_cost.saturating_mul(30) } else { self.cur_cost };
        let comp_includes = std::mem::replace(&mut self.cur_includes, saved_includes);
        self.cur_includes.extend(comp_includes);
        self.cur_cost = saved_cost;
        self.world.comps.push(CompInfo { name: name.to_string(), params, rest, uses_body: true, tpl, cost, recursive });
        let open = self.tag(&format!("component {}({}){}", name, sig.join(", "), meta));
        let close = if self.rng.chance(1, 2) { self.tag(&format!("endcomponent {}", name)) } else { self.tag("endcomponent") };
        format!("{}{}{}", open, body, close)
    }

    // ---------------------------------------------------------------- templates

    fn pick_name(&mut self, i: usize) -> String {
        let suffix = self.rng.pick(SUFFIXES);
        let base = format!("t{}{}", i, suffix);
        if !self.cfg.prefixes.is_empty() && self.rng.chance(1, 3) {
            let p = self.rng.pick(&self.cfg.prefixes).clone();
            format!("{}{}", p, base)
        } else if self.rng.chance(1, 8) {
            format!("sub/{}", base)
        } else {
            base
        }
    }

    pub fn gen_template(&mut self, i: usize) {
        let name = self.pick_name(i);
        self.gen_template_named(i, name);
    }

    pub fn gen_template_named(&mut self, i: usize, name: String) {
        debug_assert_eq!(i, self.world.info.len());
        self.cur_includes.clear();
        self.cur_blocks.clear();
        self.cur_cost = 1;
        self.stmt_count = 0;
        self.dump_count = 0;
        self.supers_in_tpl = 0;
        let extends = if i > 0 && self.rng.below(1000) < self.cfg.inheritance {
            // parents with at least one block are more interesting
            let with_blocks: Vec<usize> = (0..i).filter(|j| !self.world.info[*j].chain_blocks.is_empty()).collect();
            if !with_blocks.is_empty() && self.rng.chance(4, 5) {
                Some(self.rng.pick(&with_blocks))
            } else {
                Some(self.rng.below(i))
            }
        } else {
            None
        };
        self.world.info.push(TplInfo { name: name.clone(), extends, ..Default::default() });

        let mut src = String::new();
        if self.rng.chance(1, 10) {
            src.push_str(&format!("{} header comment {}", self.cfg.delims.cs, self.cfg.delims.ce));
        }
        if let Some(p) = extends {
            let pname = self.world.info[p].name.clone();
            let mut short = pname.clone();
            for pre in &self.cfg.prefixes {
                if pname.starts_with(pre.as_str()) && self.rng.chance(1, 2) {
                    let s = &pname[pre.len()..];
                    if self.resolve(s).as_deref() == Some(pname.as_str()) && s != name {
                        short = s.to_string();
                    }
                    break;
                }
            }
            src.push_str(&self.tag(&format!("extends \"{}\"", short)));
            self.cur_cost += self.world.info[p].cost;
        }

        // components of this template
        let mut comp_ids = Vec::new();
        if self.rng.below(1000) < self.cfg.components {
            let n = self.rng.range(1, 2);
            let mut here: Vec<String> = Vec::new();
            for _ in 0..n {
                let cname = self.rng.pick(COMP_NAMES).to_string();
                if here.contains(&cname) {
                    continue;
                }
                here.push(cname.clone());
                // one definition per name per priority level; keep it simple: unique world-wide,
                // except a deliberate lower-priority twin under a prefix
                let exists = self.world.comps.iter().any(|c| c.name == cname);
                let my_prio = self.priority(&name);
                let twin_ok = exists && self.world.comps.iter().filter(|c| c.name == cname).all(|c| self.priority(&self.world.info[c.tpl].name) != my_prio);
                if exists && !twin_ok {
                    continue;
                }
                if exists {
                    // a twin must keep the *same* signature class to stay callable: skip twins
                    // unless rare; callers only see the first definition's signature
                    if !self.rng.chance(1, 3) {
                        continue;
                    }
                    // the higher-priority definition wins at render time; callers were
                    // generated against whichever existed — keep both valid by cloning the source
                    let orig = self.world.comps.iter().position(|c| c.name == cname).unwrap();
                    let otpl = self.world.comps[orig].tpl;
                    if let Some(def) = extract_component_source(&self.world.templates[otpl].1, &cname, &self.cfg.delims) {
                        // includes inside the cloned body point to templates < otpl <= i: still fine
                        src.push_str(&def);
                        self.cur_cost += self.world.comps[orig].cost;
                        continue;
                    } else {
                        continue;
                    }
                }
                let before = self.world.comps.len();
                let def = self.gen_component(i, &cname);
                src.push_str(&def);
                comp_ids.push(before);
            }
        }

        // body
        let mut env = Env {
            vars: vec![],
            ctx_visible: true,
            in_loop: false,
            can_break: false,
            blocks_allowed: extends.is_none(),
            cur_block: None,
            mult: 1,
            depth: 0,
            tpl: i,
            comp: None,
        };
        if let Some(p) = extends {
            // child: override a subset of the chain's blocks (+ stray text that is ignored)
            let chain = self.world.info[p].chain_blocks.clone();
            if self.rng.chance(1, 4) {
                src.push_str(&self.text());
            }
            let overridden: Vec<String> = chain.iter().filter(|_| self.rng.chance(1, 2)).cloned().collect();
            // reserve every name first so nested new blocks cannot collide with a later override
            self.cur_blocks.extend(overridden.iter().cloned());
            for b in &overridden {
                let mut inner = env.clone();
                inner.depth = 1;
                inner.blocks_allowed = true;
                inner.cur_block = Some((b.clone(), true));
                src.push_str(&self.tag(&format!("block {}", b)));
                src.push_str(&self.body(&inner));
                if self.supers_in_tpl < 2 && self.rng.chance(1, 3) {
                    self.supers_in_tpl += 1;
                    src.push_str(&self.var("super()"));
                }
                src.push_str(&self.tag("endblock"));
                if self.rng.chance(1, 4) {
                    src.push_str(&self.text());
                }
            }
        } else {
            env.blocks_allowed = true;
            let n = self.rng.range(1, self.cfg.stmts_per_body.max(1) + 1);
            for _ in 0..n {
                src.push_str(&self.stmt(&env));
            }
        }

        let own_blocks = self.cur_blocks.clone();
        let mut chain_blocks = own_blocks.clone();
        if let Some(p) = extends {
            for b in &self.world.info[p].chain_blocks {
                if !chain_blocks.contains(b) {
                    chain_blocks.push(b.clone());
                }
            }
        }
        let mut includes = self.cur_includes.clone();
        includes.sort();
        includes.dedup();
        let info = &mut self.world.info[i];
        info.own_blocks = own_blocks;
        info.chain_blocks = chain_blocks;
        info.includes = includes;
        info.components = comp_ids;
        info.cost = self.cur_cost;
        self.world.templates.push((name, src));
    }

    fn priority(&self, name: &str) -> usize {
        for (i, p) in self.cfg.prefixes.iter().enumerate() {
            if name.starts_with(p.as_str()) {
                return i + 1;
            }
        }
        0
    }

    pub fn gen_world(mut self) -> World {
        for i in 0..self.cfg.n_templates {
            self.gen_template(i);
        }
        self.world
    }

    /// A one-off source for `render_str` (no extends, no blocks); may use the world's components
    /// and includes.
    pub fn gen_one_off(&mut self) -> String {
        let i = self.world.info.len();
        self.cur_includes.clear();
        self.cur_blocks.clear();
        self.cur_cost = 1;
        self.stmt_count = 0;
        self.dump_count = 0;
        self.supers_in_tpl = 0;
        // a throwaway info entry so that include/callable see every template
        self.world.info.push(TplInfo { name: "__tera_one_off".into(), ..Default::default() });
        let env = Env { vars: vec![], ctx_visible: true, in_loop: false, can_break: false, blocks_allowed: false, cur_block: None, mult: 1, depth: 0, tpl: i, comp: None };
        let mut src = String::new();
        // a component defined by the one-off source itself (template-local lookup at render time)
        let comps_before = self.world.comps.len();
        if self.rng.chance(1, 3) {
            let lname = format!("Loc{}", self.rng.below(100));
            src.push_str(&self.gen_component(i, &lname));
            let c = self.world.comps[comps_before].clone();
            let args = self.comp_args(&env, &c, 1);
            src.push_str(&self.var(&format!("<{} {}/>", lname, args)));
        }
        let n = self.rng.range(1, self.cfg.stmts_per_body.max(1) + 1);
        for _ in 0..n {
            src.push_str(&self.stmt(&env));
        }
        self.world.info.pop();
        // the local component belongs to this source only
        self.world.comps.truncate(comps_before);
        src
    }

    /// A replacement source for template `i` that keeps the world valid: same extends target,
    /// same own block names where children rely on them.
    pub fn regen_template(&mut self, i: usize) -> String {
        // Re-generate by truncating the world to i, generating, and restoring the tail. Children
        // that override blocks of `i` need those blocks to still exist somewhere in the chain, so
        // the blocks that `i` itself defined are appended if the new body lost them.
        let saved_info: Vec<TplInfo> = self.world.info.split_off(i);
        let saved_tpls: Vec<(String, String)> = self.world.templates.split_off(i);
        let saved_comps = self.world.comps.clone();
        // components defined by template i and later are not callable while regenerating i
        self.world.comps.retain(|c| c.tpl < i);
        let keep_comp_cfg = self.cfg.components;
        self.cfg.components = 0; // component providers keep their components: see below
        let old = saved_info[0].clone();
        let name = old.name.clone();
        // keep the old extends decision
        let keep_inh = self.cfg.inheritance;
        self.cfg.inheritance = 0;
        // templates that include `i` inside loops were budgeted against its old cost: the new
        // body must not be more expensive
        let keep_budget = self.cfg.cost_budget;
        self.cfg.cost_budget = old.cost.max(1);
        self.gen_template_named(i, name.clone());
        self.cfg.cost_budget = keep_budget;
        self.cfg.inheritance = keep_inh;
        self.cfg.components = keep_comp_cfg;
        let (_, mut src) = self.world.templates.pop().unwrap();
        let new_info = self.world.info.pop().unwrap();
        if let Some(p) = old.extends {
            // put the extends back in front (new body is a plain body whose text is ignored by
            // the child; turn it into a child that overrides nothing new)
            let pname = self.world.info[p].name.clone();
            let ext = self.tag(&format!("extends \"{}\"", pname));
            // only blocks that exist in the ancestors may appear at top level of a child
            src = ext;
            for b in &old.own_blocks {
                if self.world.info[p].chain_blocks.contains(b) {
                    let t = self.text();
                    src.push_str(&format!("{}{}{}", self.tag(&format!("block {}", b)), t, self.tag("endblock")));
                }
            }
        } else {
            for b in &old.own_blocks {
                if !new_info.own_blocks.contains(b) {
                    let t = self.text();
                    src.push_str(&format!("{}{}{}", self.tag(&format!("block {}", b)), t, self.tag("endblock")));
                }
            }
        }
        // keep component definitions of the old source verbatim (providers stay providers)
        for ci in &old.components {
            let cname = saved_comps[*ci].name.clone();
            if let Some(def) = extract_component_source(&saved_tpls[0].1, &cname, &self.cfg.delims) {
                src.push_str(&def);
            }
        }
        self.world.info.extend(saved_info);
        self.world.templates.extend(saved_tpls);
        self.world.comps = saved_comps;
        src
    }
}

/// `base[x:y:z]`; an omitted step drops its colon (a trailing `:` is a syntax error)
fn slice_form(base: &str, x: &str, y: &str, z: &str) -> String {
    if z.is_empty() {
        if x.is_empty() && y.is_empty() {
            format!("{}[1:]", base)
        } else {
            format!("{}[{}:{}]", base, x, y)
        }
    } else {
        format!("{}[{}:{}:{}]", base, x, y, z)
    }
}

fn kind_of_type(t: Option<&str>) -> Kind {
    match t {
        Some("string") => Kind::Str,
        Some("integer") | Some("number") => Kind::Int,
        Some("float") => Kind::Float,
        Some("bool") => Kind::Bool,
        Some("array") => Kind::ArrAny,
        Some("map") => Kind::Map,
        Some("bytes") => Kind::Bytes,
        _ => Kind::Any,
    }
}

fn is_simple(e: &str) -> bool {
    // identifiers, dotted paths, literals without spaces/operators
    if e.starts_with('"') && e.ends_with('"') && e.len() >= 2 && !e[1..e.len() - 1].contains('"') {
        return true;
    }
    !e.is_empty()
        && e.chars().all(|c| c.is_ascii_alphanumeric() || c == '_' || c == '.')
        && !e.starts_with('.')
        && !matches!(e, "not" | "and" | "or" | "in" | "is")
}

/// Finds `{% component NAME(` ... `{% endcomponent` ... `%}` in a source generated by this module.
pub fn extract_component_source(src: &str, name: &str, d: &Delims) -> Option<String> {
    let needle = format!("component {}(", name);
    let pos = src.find(&needle)?;
    let start = src[..pos].rfind(d.bs.as_str())?;
    let end_kw = src[pos..].find("endcomponent")? + pos;
    let end = src[end_kw..].find(d.be.as_str())? + end_kw + d.be.len();
    Some(src[start..end].to_string())
}
