//! Building real `Tera` instances from scenario data, the simulator's registered callbacks, the
//! cfg(tera_verif) hooks, and the canonical observation record `obs` (DESIGN.md §5.2).
use crate::gen::Delims;
use crate::sval::SCtx;
use serde::{Deserialize, Serialize};
use std::cell::{Cell, RefCell};
use std::collections::BTreeMap;
use tera::{Context, ErrorKind, Kwargs, State, Tera, TeraResult, Value};

#[derive(Clone, Debug, Serialize, Deserialize, PartialEq, Default)]
pub struct Config {
    /// None = engine default ([".html", ".htm", ".xml"])
    pub autoescape: Option<Vec<String>>,
    pub prefixes: Vec<String>,
    pub delims: Delims,
    pub global: SCtx,
    /// register the simulator's filter / function / test and escape fn
    pub custom: bool,
}

// ------------------------------------------------------------------------------------------------
// hooks
// ------------------------------------------------------------------------------------------------

thread_local! {
    pub static STEPS: Cell<u64> = const { Cell::new(0) };
    static STEPS_TOTAL: Cell<u64> = const { Cell::new(0) };
    static STEP_LIMIT: Cell<u64> = const { Cell::new(u64::MAX) };
    static STEP_LIMIT_HIT: Cell<bool> = const { Cell::new(false) };
    static END_STATE_BAD: RefCell<Option<(usize, usize, usize)>> = const { RefCell::new(None) };
    static END_RENDERS: Cell<u64> = const { Cell::new(0) };
    static STACK_BASE: Cell<usize> = const { Cell::new(0) };
    static STACK_MAX: Cell<usize> = const { Cell::new(0) };
    static YIELD_EVERY: Cell<u64> = const { Cell::new(0) };
    static YIELD_FN: Cell<Option<fn()>> = const { Cell::new(None) };
}

pub fn steps_total() -> u64 {
    STEPS_TOTAL.with(|s| s.get())
}

fn step_hook() {
    STEPS_TOTAL.with(|s| s.set(s.get() + 1));
    let n = STEPS.with(|s| {
        let n = s.get() + 1;
        s.set(n);
        n
    });
    // stack depth probe: address of a local
    let probe = 0u8;
    let addr = &probe as *const u8 as usize;
    STACK_BASE.with(|b| {
        let base = b.get();
        if base != 0 {
            let used = base.saturating_sub(addr);
            // (shuttle continuations run on heap-allocated stacks: addresses unrelated to the
            // probe's base are ignored)
            if used < (2 << 20) {
                STACK_MAX.with(|m| {
                    if used > m.get() {
                        m.set(used)
                    }
                });
            }
        }
    });
    if n > STEP_LIMIT.with(|l| l.get()) {
        STEP_LIMIT_HIT.with(|h| h.set(true));
        // unwinding out of the interpreter is the only way to stop a runaway render without a
        // wall clock; the caller's catch_unwind turns this into the liveness violation
        panic!("terasim: step budget exceeded");
    }
    let every = YIELD_EVERY.with(|y| y.get());
    if every != 0 && n % every == 0 {
        if let Some(f) = YIELD_FN.with(|f| f.get()) {
            f();
        }
    }
}

fn end_hook(stack: usize, loops: usize, caps: usize) {
    END_RENDERS.with(|c| c.set(c.get() + 1));
    if stack != 0 || loops != 0 || caps != 0 {
        END_STATE_BAD.with(|b| {
            let mut b = b.borrow_mut();
            if b.is_none() {
                *b = Some((stack, loops, caps));
            }
        });
    }
}

pub fn install_hooks() {
    tera::verif::set_step_hook(Some(step_hook));
    tera::verif::set_end_of_render_hook(Some(end_hook));
    let probe = 0u8;
    STACK_BASE.with(|b| b.set(&probe as *const u8 as usize));
}

pub fn set_yield(every: u64, f: Option<fn()>) {
    YIELD_EVERY.with(|y| y.set(every));
    YIELD_FN.with(|y| y.set(f));
}

pub fn reset_steps() {
    STEPS.with(|s| s.set(0));
}
pub fn steps() -> u64 {
    STEPS.with(|s| s.get())
}
pub fn set_step_limit(abs: u64) {
    STEP_LIMIT.with(|l| l.set(abs));
    STEP_LIMIT_HIT.with(|h| h.set(false));
}
pub fn clear_step_limit() {
    STEP_LIMIT.with(|l| l.set(u64::MAX));
}
pub fn step_limit_hit() -> bool {
    STEP_LIMIT_HIT.with(|h| h.replace(false))
}
pub fn take_end_state_violation() -> Option<(usize, usize, usize)> {
    END_STATE_BAD.with(|b| b.borrow_mut().take())
}
pub fn end_renders() -> u64 {
    END_RENDERS.with(|c| c.get())
}
pub fn stack_max() -> usize {
    STACK_MAX.with(|m| m.get())
}

// ------------------------------------------------------------------------------------------------
// simulator-registered callbacks (existing API seams)
// ------------------------------------------------------------------------------------------------

thread_local! {
    static CALLBACK_YIELD: Cell<Option<fn()>> = const { Cell::new(None) };
    pub static CALLBACK_CALLS: Cell<u64> = const { Cell::new(0) };
}

pub fn set_callback_yield(f: Option<fn()>) {
    CALLBACK_YIELD.with(|c| c.set(f));
}

fn cb() {
    CALLBACK_CALLS.with(|c| c.set(c.get() + 1));
    if let Some(f) = CALLBACK_YIELD.with(|c| c.get()) {
        f();
    }
}

fn sim_echo(v: &str, _: Kwargs, _: &State) -> String {
    cb();
    v.to_string()
}

/// What a callback can see through `&State`: two names from the global context (`g_only` is in
/// every generated global context, `zz_g2` only after the global-context-change pass) and one
/// that is never defined. Part of `sim_fn`'s result, so that anything a render leaves behind
/// where `State::get` looks shows up as a difference between renders.
fn state_probe(state: &State) -> String {
    let look = |n: &str| match state.get::<Value>(n) {
        Ok(Some(v)) => format!("{}", v),
        Ok(None) => "-".to_string(),
        Err(_) => "!".to_string(),
    };
    format!("{}/{}/{}", look("g_only"), look("zz_g2"), look("zz_never_defined"))
}

fn sim_fn(kwargs: Kwargs, state: &State) -> TeraResult<Value> {
    cb();
    let v = kwargs.get::<Value>("v")?;
    let base = v.map(|v| format!("{}", v)).unwrap_or_else(|| "sim".to_string());
    Ok(Value::from(format!("{}~{}", base, state_probe(state))))
}

fn sim_test(v: &Value, _: Kwargs, _: &State) -> bool {
    cb();
    v.is_string()
}

thread_local! {
    static ESCAPE_CALLS: Cell<u64> = const { Cell::new(0) };
    static ESCAPE_FAIL_AT: Cell<Option<u64>> = const { Cell::new(None) };
    static ESCAPE_FIRED: Cell<bool> = const { Cell::new(false) };
}

/// The user-supplied escape function is a fault seam of its own: it returns `io::Result` and may
/// fail (the engine must turn that into an error value, never a panic).
pub fn escape_calls_reset() {
    ESCAPE_CALLS.with(|c| c.set(0));
    ESCAPE_FIRED.with(|c| c.set(false));
}
pub fn escape_calls() -> u64 {
    ESCAPE_CALLS.with(|c| c.get())
}
pub fn set_escape_fault(at: Option<u64>) {
    ESCAPE_FAIL_AT.with(|c| c.set(at));
}
pub fn escape_fault_fired() -> bool {
    ESCAPE_FIRED.with(|c| c.get())
}

fn sim_escape(input: &str, out: &mut dyn std::io::Write) -> std::io::Result<()> {
    cb();
    let n = ESCAPE_CALLS.with(|c| {
        let n = c.get();
        c.set(n + 1);
        n
    });
    if ESCAPE_FAIL_AT.with(|c| c.get()) == Some(n) {
        ESCAPE_FIRED.with(|c| c.set(true));
        return Err(std::io::Error::new(std::io::ErrorKind::InvalidData, "terasim: injected escape-fn failure"));
    }
    tera::escape_html(input, out)
}

pub fn new_tera(cfg: &Config) -> Tera {
    let mut t = Tera::default();
    if !cfg.delims.is_default() {
        t.set_delimiters(cfg.delims.to_tera()).expect("generated delimiters are valid");
    }
    if !cfg.prefixes.is_empty() {
        t.set_fallback_prefixes(cfg.prefixes.clone()).expect("prefixes before templates");
    }
    if let Some(a) = &cfg.autoescape {
        t.autoescape_on(a.clone());
    }
    for (k, v) in &cfg.global.0 {
        t.global_context().insert_value(k.clone(), v.to_value());
    }
    if cfg.custom {
        register_custom(&mut t, false);
    }
    t
}

/// The simulator's callbacks; `via_from` takes the filter, function and test from another
/// instance (`Tera::register_from`) instead of registering them one by one.
pub fn register_custom(t: &mut Tera, via_from: bool) {
    if via_from {
        let mut other = Tera::default();
        register_custom(&mut other, false);
        // a name that exists on both sides must keep the receiver's version
        other.register_filter("upper", sim_echo);
        t.register_from(&other);
    } else {
        t.register_filter("sim_echo", sim_echo);
        t.register_function("sim_fn", sim_fn);
        t.register_test("sim_test", sim_test);
    }
    t.set_escape_fn(sim_escape);
}

// ------------------------------------------------------------------------------------------------
// results and observation
// ------------------------------------------------------------------------------------------------

pub fn kind_tag(k: &ErrorKind) -> String {
    match k {
        ErrorKind::Msg(_) => "Msg".into(),
        ErrorKind::SyntaxError(_) => "SyntaxError".into(),
        ErrorKind::RenderingError(_) => "RenderingError".into(),
        ErrorKind::CircularExtend { .. } => "CircularExtend".into(),
        ErrorKind::CircularInclude { .. } => "CircularInclude".into(),
        ErrorKind::MissingParent { .. } => "MissingParent".into(),
        ErrorKind::TemplateNotFound(_) => "TemplateNotFound".into(),
        ErrorKind::ComponentNotFound(_) => "ComponentNotFound".into(),
        ErrorKind::InvalidArgument { .. } => "InvalidArgument".into(),
        ErrorKind::MissingArgument { .. } => "MissingArgument".into(),
        ErrorKind::OutOfRangeArgument { .. } => "OutOfRangeArgument".into(),
        ErrorKind::Io(k) => format!("Io({:?})", k),
        ErrorKind::Utf8Conversion => "Utf8Conversion".into(),
        _ => "Other".into(),
    }
}

/// Canonical text of a result: `OK:<text>` or `ERR[<kind>]:<display>`.
pub fn canon<T: AsRef<[u8]>>(r: &Result<T, tera::Error>) -> String {
    match r {
        Ok(s) => format!("OK:{}", String::from_utf8_lossy(s.as_ref())),
        Err(e) => format!("ERR[{}]:{}", kind_tag(e.kind()), e),
    }
}

#[derive(Clone, Debug, Serialize, Deserialize, PartialEq, Default)]
pub struct CompProbe {
    pub name: String,
    pub ctx: SCtx,
    pub body: Option<String>,
}

/// What `obs` looks at besides the registered names themselves.
#[derive(Clone, Debug, Serialize, Deserialize, PartialEq, Default)]
pub struct Probe {
    /// candidate template names (full names, short names to be resolved through prefixes, and
    /// names that may not exist)
    pub names: Vec<String>,
    pub blocks: Vec<String>,
    pub comps: Vec<CompProbe>,
    /// one-off sources (`render_str`), the same strings at every observation: whatever the engine
    /// may remember about a one-off it has rendered before must not outlive a registry change
    #[serde(default)]
    pub oneoffs: Vec<String>,
}

pub type Obs = BTreeMap<String, String>;

/// The canonical observable record of an instance (DESIGN.md §5.2). Everything in it is
/// independent of hash order by construction (sets are sorted, maps print sorted).
pub fn observe(t: &Tera, ctxs: &[Context], probe: &Probe) -> Obs {
    let mut o = Obs::new();
    let mut names: Vec<String> = t.get_template_names().map(|s| s.to_string()).collect();
    names.sort();
    o.insert("names".into(), names.join("|"));
    for n in &probe.names {
        o.insert(format!("contains:{}", n), t.contains_template(n).to_string());
    }
    let mut all: Vec<String> = names.clone();
    for n in &probe.names {
        if !all.contains(n) {
            all.push(n.clone());
        }
    }
    for n in &all {
        for (ci, c) in ctxs.iter().enumerate() {
            o.insert(format!("render:{}:{}", n, ci), canon(&t.render(n, c)));
        }
        let vars = match t.get_template_variables(n) {
            Ok(v) => {
                let mut v: Vec<&str> = v.into_iter().collect();
                v.sort();
                format!("OK:{}", v.join(","))
            }
            Err(e) => format!("ERR[{}]:{}", kind_tag(e.kind()), e),
        };
        o.insert(format!("vars:{}", n), vars);
        for b in &probe.blocks {
            // one context is enough for the block text; index 0 is the rich one
            if let Some(c) = ctxs.first() {
                let r = t.render_block(n, b, c);
                // absence of a block is reported tersely so the record stays small
                let s = match &r {
                    Err(e) if matches!(e.kind(), ErrorKind::Msg(m) if m.starts_with("Block `")) => "NOBLOCK".to_string(),
                    _ => canon(&r),
                };
                o.insert(format!("block:{}:{}", n, b), s);
            }
        }
    }
    for cp in &probe.comps {
        let def = match t.get_component_definition(&cp.name) {
            None => "NONE".to_string(),
            Some(info) => {
                let mut s = format!("{}(", info.name());
                for a in info.args() {
                    s.push_str(&format!(
                        "{}:{}={};",
                        a.name(),
                        a.arg_type().map(|t| t.as_str()).unwrap_or("-"),
                        a.default().map(|v| format!("{}", v)).unwrap_or_else(|| "-".into())
                    ));
                }
                s.push_str(&format!(")rest={:?} meta=", info.rest_param()));
                for (k, v) in info.metadata() {
                    s.push_str(&format!("{}={};", k, v));
                }
                s
            }
        };
        o.insert(format!("compdef:{}", cp.name), def);
        let ctx = cp.ctx.to_context();
        for esc in [true, false] {
            o.insert(
                format!("comp:{}:{}", cp.name, esc),
                canon(&t.render_component(&cp.name, &ctx, cp.body.as_deref(), esc)),
            );
        }
    }
    for (i, src) in probe.oneoffs.iter().enumerate() {
        if let Some(c) = ctxs.first() {
            o.insert(format!("oneoff:{}", i), canon(&t.render_str(src, c, true)));
        }
    }
    o
}

/// `observe` with every engine call guarded: panics are caught, each render runs under a VM step
/// budget (bounded liveness without a wall clock), and the C07 invariants that can be read off a
/// result are checked. Returns the record and a list of (invariant, detail) problems.
pub fn observe_guarded(t: &Tera, ctxs: &[Context], probe: &Probe, budget: u64, do_render: bool) -> (Obs, Vec<(String, String)>) {
    use crate::common::catch;
    let mut o = Obs::new();
    let mut problems: Vec<(String, String)> = Vec::new();
    let mut names: Vec<String> = t.get_template_names().map(|s| s.to_string()).collect();
    names.sort();
    o.insert("names".into(), names.join("|"));
    for n in &probe.names {
        o.insert(format!("contains:{}", n), t.contains_template(n).to_string());
    }
    let mut all: Vec<String> = names.clone();
    for n in &probe.names {
        if !all.contains(n) {
            all.push(n.clone());
        }
    }
    let mut guarded = |what: String, registered: bool, f: &mut dyn FnMut() -> Result<String, tera::Error>, problems: &mut Vec<(String, String)>| -> String {
        if std::env::var("TERASIM_TRACE").is_ok() {
            eprintln!("trace: {}", what);
        }
        set_step_limit(steps() + budget);
        let r = catch(|| f());
        clear_step_limit();
        let hit = step_limit_hit();
        match r {
            Err(p) => {
                if hit {
                    problems.push(("render-exceeds-step-budget".into(), format!("{}: more than {} VM steps", what, budget)));
                    "STEP-BUDGET".to_string()
                } else {
                    problems.push(("panic-in-render".into(), format!("{}: {}", what, p)));
                    format!("PANIC:{}", p)
                }
            }
            Ok(r) => {
                if let Some(v) = take_end_state_violation() {
                    problems.push(("end-state-not-empty".into(), format!("{}: stack/loops/captures = {:?}", what, v)));
                }
                if let Err(e) = &r {
                    let _ = format!("{:?}", e);
                    let msg = format!("{}", e);
                    // includes, parents and components were all validated when the set was
                    // accepted: "not found" must not come out of rendering a registered name,
                    // not even from a nested lookup
                    if registered && matches!(e.kind(), ErrorKind::TemplateNotFound(_) | ErrorKind::ComponentNotFound(_)) {
                        problems.push(("registered-name-not-found".into(), format!("{}: {}", what, msg)));
                    }
                    if msg.contains("not properly finalized") {
                        problems.push(("not-finalized-at-render".into(), format!("{}: {}", what, msg)));
                    }
                    if matches!(e.kind(), ErrorKind::Utf8Conversion) {
                        problems.push(("output-not-utf8".into(), format!("{}: {}", what, msg)));
                    }
                }
                canon(&r)
            }
        }
    };
    for n in &all {
        let registered = names.contains(n);
        if do_render {
            for (ci, c) in ctxs.iter().enumerate() {
                let v = guarded(format!("render({}, ctx{})", n, ci), registered, &mut || t.render(n, c), &mut problems);
                o.insert(format!("render:{}:{}", n, ci), v);
            }
        }
        let vars = match t.get_template_variables(n) {
            Ok(v) => {
                let mut v: Vec<&str> = v.into_iter().collect();
                v.sort();
                format!("OK:{}", v.join(","))
            }
            Err(e) => format!("ERR[{}]:{}", kind_tag(e.kind()), e),
        };
        o.insert(format!("vars:{}", n), vars);
        if do_render && registered {
            if let Some(c) = ctxs.first() {
                for b in &probe.blocks {
                    let v = guarded(format!("render_block({}, {})", n, b), registered, &mut || t.render_block(n, b, c), &mut problems);
                    let v = if v.starts_with("ERR[Msg]:Block `") { "NOBLOCK".to_string() } else { v };
                    o.insert(format!("block:{}:{}", n, b), v);
                }
            }
        }
    }
    for cp in &probe.comps {
        let def = match t.get_component_definition(&cp.name) {
            None => "NONE".to_string(),
            Some(info) => {
                let mut s = format!("{}(", info.name());
                for a in info.args() {
                    s.push_str(&format!("{}:{}={};", a.name(), a.arg_type().map(|t| t.as_str()).unwrap_or("-"), a.default().map(|v| format!("{}", v)).unwrap_or_else(|| "-".into())));
                }
                s.push_str(&format!(")rest={:?} meta=", info.rest_param()));
                for (k, v) in info.metadata() {
                    s.push_str(&format!("{}={};", k, v));
                }
                s
            }
        };
        let registered = def != "NONE";
        o.insert(format!("compdef:{}", cp.name), def);
        if do_render {
            let ctx = cp.ctx.to_context();
            for esc in [true, false] {
                let v = guarded(format!("render_component({}, autoescape={})", cp.name, esc), registered, &mut || t.render_component(&cp.name, &ctx, cp.body.as_deref(), esc), &mut problems);
                o.insert(format!("comp:{}:{}", cp.name, esc), v);
            }
        }
    }
    if do_render {
        if let Some(c) = ctxs.first() {
            for (i, src) in probe.oneoffs.iter().enumerate() {
                let v = guarded(format!("render_str(one-off {})", i), false, &mut || t.render_str(src, c, true), &mut problems);
                o.insert(format!("oneoff:{}", i), v);
            }
        }
    }
    (o, problems)
}

pub fn first_diff(a: &Obs, b: &Obs) -> Option<String> {
    for (k, va) in a {
        match b.get(k) {
            Some(vb) if va == vb => {}
            Some(vb) => return Some(format!("{}: {:?} != {:?}", k, trunc(va), trunc(vb))),
            None => return Some(format!("{}: {:?} != <absent>", k, trunc(va))),
        }
    }
    for (k, vb) in b {
        if !a.contains_key(k) {
            return Some(format!("{}: <absent> != {:?}", k, trunc(vb)));
        }
    }
    None
}

pub fn trunc(s: &str) -> String {
    if s.len() > 300 {
        let mut end = 300;
        while !s.is_char_boundary(end) {
            end -= 1;
        }
        format!("{}…", &s[..end])
    } else {
        s.to_string()
    }
}
