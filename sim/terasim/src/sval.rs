//! Tagged value tree: the serialisable form of context data inside scenarios, so that bytes,
//! 128-bit integers, NaN/inf and non-string map keys survive a JSON replay file exactly.
use crate::rng::Rng;
use serde::{Deserialize, Serialize};
use tera::value::Key;
use tera::{Context, Value};

#[derive(Clone, Debug, Serialize, Deserialize, PartialEq)]
pub enum SKey {
    #[serde(rename = "s")]
    S(String),
    /// a string key as a serialised Rust struct carries it (`Key::Str(&'static str)`, not the
    /// owned `Key::String` of map data and template literals); names outside `STATIC_NAMES`
    /// fall back to an owned key
    #[serde(rename = "st")]
    Static(String),
    #[serde(rename = "i")]
    I(i64),
    #[serde(rename = "u")]
    U(u64),
    #[serde(rename = "b")]
    B(bool),
}

#[derive(Clone, Debug, Serialize, Deserialize, PartialEq)]
pub enum SVal {
    #[serde(rename = "none")]
    None,
    #[serde(rename = "undef")]
    Undef,
    #[serde(rename = "b")]
    Bool(bool),
    #[serde(rename = "i")]
    I64(i64),
    #[serde(rename = "u")]
    U64(u64),
    /// decimal text
    #[serde(rename = "i128")]
    I128(String),
    #[serde(rename = "u128")]
    U128(String),
    /// text: "NaN", "inf", "-inf" or a Rust float literal
    #[serde(rename = "f")]
    F64(String),
    #[serde(rename = "s")]
    Str(String),
    #[serde(rename = "safe")]
    Safe(String),
    /// hex
    #[serde(rename = "bytes")]
    Bytes(String),
    #[serde(rename = "a")]
    Arr(Vec<SVal>),
    #[serde(rename = "m")]
    Map(Vec<(SKey, SVal)>),
}

pub fn hex(bytes: &[u8]) -> String {
    let mut s = String::with_capacity(bytes.len() * 2);
    for b in bytes {
        s.push_str(&format!("{:02x}", b));
    }
    s
}

pub fn unhex(s: &str) -> Vec<u8> {
    let b = s.as_bytes();
    let mut out = Vec::with_capacity(b.len() / 2);
    let mut i = 0;
    while i + 1 < b.len() {
        let h = (b[i] as char).to_digit(16).unwrap_or(0) as u8;
        let l = (b[i + 1] as char).to_digit(16).unwrap_or(0) as u8;
        out.push(h << 4 | l);
        i += 2;
    }
    out
}

fn parse_f(s: &str) -> f64 {
    match s {
        "NaN" => f64::NAN,
        "inf" => f64::INFINITY,
        "-inf" => f64::NEG_INFINITY,
        _ => s.parse::<f64>().unwrap_or(0.0),
    }
}

pub fn fmt_f(f: f64) -> String {
    if f.is_nan() {
        "NaN".into()
    } else if f == f64::INFINITY {
        "inf".into()
    } else if f == f64::NEG_INFINITY {
        "-inf".into()
    } else {
        format!("{:?}", f)
    }
}

const STATIC_NAMES: &[&str] = &[
    "name", "age", "group", "tags", "active", "k", "a", "b", "c", "z", "id", "key", "k0", "k1", "k2", "k3", "k4", "key0", "key1", "key2", "key3", "key4", "a0", "a1", "a2", "a3", "a4", "z0", "z1", "z2", "z3", "z4",
    "name0", "name1", "name2", "name3", "name4", "id0", "id1", "id2", "id3", "id4",
];

impl SKey {
    pub fn to_key(&self) -> Key<'static> {
        match self {
            SKey::S(s) => Key::from(s.clone()),
            SKey::Static(s) => match STATIC_NAMES.iter().find(|n| **n == s.as_str()) {
                Some(n) => Key::Str(n),
                None => Key::from(s.clone()),
            },
            SKey::I(i) => Key::I64(*i),
            SKey::U(u) => Key::U64(*u),
            SKey::B(b) => Key::Bool(*b),
        }
    }
}

impl SVal {
    pub fn to_value(&self) -> Value {
        match self {
            SVal::None => Value::none(),
            SVal::Undef => Value::undefined(),
            SVal::Bool(b) => Value::from(*b),
            SVal::I64(i) => Value::from(*i),
            SVal::U64(u) => Value::from(*u),
            SVal::I128(s) => Value::from(s.parse::<i128>().unwrap_or(0)),
            SVal::U128(s) => Value::from(s.parse::<u128>().unwrap_or(0)),
            SVal::F64(s) => Value::from(parse_f(s)),
            SVal::Str(s) => Value::from(s.as_str()),
            SVal::Safe(s) => Value::safe_string(s),
            SVal::Bytes(h) => Value::from(unhex(h).as_slice()),
            SVal::Arr(xs) => Value::from(xs.iter().map(|x| x.to_value()).collect::<Vec<Value>>()),
            SVal::Map(kvs) => {
                let mut m = tera::Map::new();
                for (k, v) in kvs {
                    m.insert(k.to_key(), v.to_value());
                }
                Value::from(m)
            }
        }
    }

    pub fn str(s: &str) -> SVal {
        SVal::Str(s.to_string())
    }

    pub fn map(kvs: Vec<(&str, SVal)>) -> SVal {
        SVal::Map(kvs.into_iter().map(|(k, v)| (SKey::S(k.to_string()), v)).collect())
    }
}

/// A context as an ordered list of (name, value).
#[derive(Clone, Debug, Serialize, Deserialize, PartialEq, Default)]
pub struct SCtx(pub Vec<(String, SVal)>);

impl SCtx {
    pub fn to_context(&self) -> Context {
        let mut c = Context::new();
        for (k, v) in &self.0 {
            c.insert_value(k.clone(), v.to_value());
        }
        c
    }
    pub fn get(&self, k: &str) -> Option<&SVal> {
        self.0.iter().find(|(n, _)| n == k).map(|(_, v)| v)
    }
}

// ------------------------------------------------------------------------------------------------
// Context generation. The *schema* (which names exist and what kind each one is) is fixed, so the
// template generator can refer to variables of a known kind; the *values* are seeded.
// ------------------------------------------------------------------------------------------------

const SPECIAL_STRINGS: &[&str] = &[
    "<b>&\"'</b>",
    "<>&\"'",
    "a<b",
    "&amp;",
    "'\"",
    "</script><script>alert(1)</script>",
    "h\u{e9}llo w\u{f6}rld",
    "\u{1F389}\u{1F980}",
    "\u{e9}<\u{1F389}>&",
    "line1\nline2\n\nline4",
    "  padded  ",
    "{{ not a tag }}",
    "{% raw %}",
    "",
    "x",
    "Hello World foo bar",
    "\u{0}\u{7f}",
    "a\u{300}e\u{301}",
    // characters whose case mapping changes the UTF-8 length (first position and inside)
    "\u{131}stanbul \u{17f}et \u{fb01}ne",
    "\u{149} \u{1f0} \u{390} \u{df}",
    "\u{130}stanbul \u{130}",
    "\u{1c5} \u{1c6}x",
    "\u{1F468}\u{200D}\u{1F469}\u{200D}\u{1F467} family",
    "\u{fb03}",
    "\u{23a}\u{2c65}",
    "\u{10400}\u{10428} \u{df}a",
    "\u{17f}",
    // multi-codepoint grapheme clusters at both ends (flags, ZWJ sequence, stacked marks)
    "\u{1F1EB}\u{1F1F7}\u{1F1E9}\u{1F1EA}",
    "e\u{301}\u{301}x\u{1F468}\u{200D}\u{1F469}\u{200D}\u{1F467}",
    "\u{1F1EB}a\u{301}",
];

pub fn gen_string(rng: &Rng) -> String {
    if rng.chance(3, 4) {
        rng.pick(SPECIAL_STRINGS).to_string()
    } else {
        let n = rng.below(12);
        let alphabet: Vec<char> = "ab<>&\"' \u{e9}\u{1F389}\n{%}\u{131}\u{17f}\u{fb01}\u{130}\u{df}\u{149}\u{301}".chars().collect();
        (0..n).map(|_| rng.pick(&alphabet)).collect()
    }
}

pub fn gen_int(rng: &Rng) -> SVal {
    match rng.below(10) {
        0 => SVal::I64(0),
        1 => SVal::I64(-1),
        2 => SVal::I64(i64::MAX),
        3 => SVal::I64(i64::MIN),
        4 => SVal::U64(u64::MAX),
        5 => SVal::U128(u128::MAX.to_string()),
        6 => SVal::I128(i128::MIN.to_string()),
        _ => SVal::I64(rng.irange(-20, 100)),
    }
}

pub fn gen_float(rng: &Rng) -> SVal {
    match rng.below(8) {
        0 => SVal::F64("NaN".into()),
        1 => SVal::F64("inf".into()),
        2 => SVal::F64("-inf".into()),
        3 => SVal::F64("0.0".into()),
        4 => SVal::F64("-0.0".into()),
        5 => SVal::F64("1e300".into()),
        _ => SVal::F64(fmt_f((rng.irange(-1000, 1000) as f64) / 8.0)),
    }
}

pub fn gen_scalar(rng: &Rng) -> SVal {
    match rng.below(8) {
        0 => SVal::None,
        1 => SVal::Bool(rng.chance(1, 2)),
        2 => gen_int(rng),
        3 => gen_float(rng),
        4 => SVal::Bytes(hex(&gen_bytes(rng))),
        _ => SVal::Str(gen_string(rng)),
    }
}

fn gen_bytes(rng: &Rng) -> Vec<u8> {
    match rng.below(4) {
        0 => vec![],
        1 => vec![0xff, 0xfe, 0x00, 0x41],
        2 => "h\u{e9}".as_bytes().to_vec(),
        _ => (0..rng.below(6)).map(|_| rng.below(256) as u8).collect(),
    }
}

pub fn gen_any(rng: &Rng, depth: usize) -> SVal {
    if depth == 0 || rng.chance(1, 2) {
        return gen_scalar(rng);
    }
    if rng.chance(1, 2) {
        let n = rng.below(4);
        SVal::Arr((0..n).map(|_| gen_any(rng, depth - 1)).collect())
    } else {
        gen_map(rng, depth - 1)
    }
}

pub fn gen_map(rng: &Rng, depth: usize) -> SVal {
    let n = rng.below(5);
    let mut kvs: Vec<(SKey, SVal)> = Vec::new();
    for i in 0..n {
        let k = match rng.below(10) {
            0 => SKey::I(rng.irange(-3, 3)),
            1 => SKey::U(rng.below(5) as u64),
            2 => SKey::B(rng.chance(1, 2)),
            3 | 4 => SKey::Static(format!("{}{}", rng.pick(&["k", "key", "a", "z", "name", "id"]), i)),
            _ => SKey::S(format!("{}{}", rng.pick(&["k", "key", "a", "z", "name", "id"]), i)),
        };
        if kvs.iter().any(|(kk, _)| kk == &k) {
            continue;
        }
        let v = if rng.chance(1, 12) { SVal::Undef } else { gen_any(rng, depth) };
        kvs.push((k, v));
    }
    SVal::Map(kvs)
}

fn gen_user(rng: &Rng, i: usize) -> SVal {
    let m = gen_user_map(rng, i);
    // half of the users look like a serialised Rust struct (static field names as keys)
    if rng.chance(1, 2) {
        if let SVal::Map(kvs) = m {
            return SVal::Map(
                kvs.into_iter()
                    .map(|(k, v)| match k {
                        SKey::S(s) => (SKey::Static(s), v),
                        k => (k, v),
                    })
                    .collect(),
            );
        }
    }
    m
}

fn gen_user_map(rng: &Rng, i: usize) -> SVal {
    SVal::map(vec![
        ("name", SVal::Str(if rng.chance(1, 2) { gen_string(rng) } else { format!("user{}", i) })),
        ("age", SVal::I64(rng.irange(0, 90))),
        ("group", SVal::str(rng.pick(&["a", "b", "c"]))),
        ("tags", SVal::Arr((0..rng.below(3)).map(|_| SVal::Str(gen_string(rng))).collect())),
        ("active", SVal::Bool(rng.chance(1, 2))),
    ])
}

/// The fixed schema. (name, kind) — kinds are what the template generator relies on.
#[derive(Clone, Copy, Debug, PartialEq, Eq)]
pub enum Kind {
    Str,
    Int,
    Float,
    Bool,
    ArrInt,
    ArrStr,
    ArrAny,
    ArrUser,
    Map,
    User,
    Bytes,
    NoneK,
    Any,
}

pub const SCHEMA: &[(&str, Kind)] = &[
    ("s_html", Kind::Str),
    ("s_uni", Kind::Str),
    ("s_any", Kind::Str),
    ("s_empty", Kind::Str),
    ("n_int", Kind::Int),
    ("n_small", Kind::Int),
    ("n_big", Kind::Int),
    ("n_edge", Kind::Int),
    ("n_f", Kind::Float),
    ("n_odd", Kind::Float),
    ("b_t", Kind::Bool),
    ("b_any", Kind::Bool),
    ("arr_i", Kind::ArrInt),
    ("arr_s", Kind::ArrStr),
    ("arr_e", Kind::ArrAny),
    ("arr_mix", Kind::ArrAny),
    ("users", Kind::ArrUser),
    ("m", Kind::Map),
    ("mm", Kind::Map),
    ("user", Kind::User),
    ("byt", Kind::Bytes),
    ("none_v", Kind::NoneK),
    ("any_v", Kind::Any),
    ("g_only", Kind::Str),
];

/// `variant`: 0 = rich context, 1 = empty, 2 = sparse/perturbed kinds.
pub fn gen_context(rng: &Rng, variant: usize) -> SCtx {
    let mut out = Vec::new();
    if variant == 1 {
        return SCtx(out);
    }
    for (name, kind) in SCHEMA {
        if *name == "g_only" {
            continue; // lives in the global context only
        }
        if variant == 2 && rng.chance(1, 3) {
            continue; // undefined in the sparse context
        }
        let perturb = variant == 2 && *name != "n_small" && rng.chance(1, 4);
        let v = if perturb {
            gen_any(rng, 2)
        } else {
            match kind {
                Kind::Str => match *name {
                    "s_html" => SVal::str(rng.pick(&SPECIAL_STRINGS[..6])),
                    "s_uni" => SVal::str(rng.pick(&SPECIAL_STRINGS[6..9])),
                    "s_empty" => SVal::str(""),
                    _ => SVal::Str(gen_string(rng)),
                },
                Kind::Int => match *name {
                    "n_small" => SVal::I64(rng.irange(0, 6)),
                    // the positive extremes (n_big has the unsigned / negative ones)
                    "n_edge" => match rng.below(4) {
                        0 => SVal::I128(i128::MAX.to_string()),
                        1 => SVal::I64(i64::MAX),
                        2 => SVal::I128((i128::MAX - 1).to_string()),
                        _ => SVal::U64(u32::MAX as u64 + 1),
                    },
                    "n_big" => match rng.below(4) {
                        0 => SVal::U128(u128::MAX.to_string()),
                        1 => SVal::I128(i128::MIN.to_string()),
                        2 => SVal::U64(u64::MAX),
                        _ => SVal::I64(i64::MIN),
                    },
                    _ => gen_int(rng),
                },
                Kind::Float => {
                    if *name == "n_odd" {
                        SVal::F64(rng.pick(&["NaN", "inf", "-inf", "-0.0"]).to_string())
                    } else {
                        gen_float(rng)
                    }
                }
                Kind::Bool => {
                    if *name == "b_t" {
                        SVal::Bool(true)
                    } else {
                        SVal::Bool(rng.chance(1, 2))
                    }
                }
                Kind::ArrInt => SVal::Arr((0..rng.range(1, 5)).map(|_| SVal::I64(rng.irange(-5, 20))).collect()),
                Kind::ArrStr => SVal::Arr((0..rng.range(1, 4)).map(|_| SVal::Str(gen_string(rng))).collect()),
                Kind::ArrAny => {
                    if *name == "arr_e" {
                        SVal::Arr(vec![])
                    } else {
                        SVal::Arr((0..rng.below(5)).map(|_| gen_any(rng, 1)).collect())
                    }
                }
                Kind::ArrUser => SVal::Arr((0..rng.range(1, 4)).map(|i| gen_user(rng, i)).collect()),
                Kind::Map => {
                    if *name == "m" {
                        SVal::map(vec![
                            ("k", SVal::Str(gen_string(rng))),
                            ("z", SVal::I64(rng.irange(0, 9))),
                            ("a", SVal::Arr(vec![SVal::I64(1), SVal::str("<i>")])),
                            ("n", SVal::None),
                        ])
                    } else {
                        gen_map(rng, 2)
                    }
                }
                Kind::User => gen_user(rng, 0),
                Kind::Bytes => SVal::Bytes(hex(&gen_bytes(rng))),
                Kind::NoneK => SVal::None,
                Kind::Any => gen_any(rng, 2),
            }
        };
        out.push((name.to_string(), v));
    }
    SCtx(out)
}

pub fn gen_global_context(rng: &Rng) -> SCtx {
    let mut out = vec![("g_only".to_string(), SVal::Str(gen_string(rng)))];
    // shadow a few keys of the render context
    for name in ["s_any", "n_int", "m"] {
        if rng.chance(1, 3) {
            out.push((name.to_string(), SVal::str("<global>")));
        }
    }
    SCtx(out)
}
