//! Engine `rendersim` (C18 a–d, C07 faulted renders): one world, many renders, every output
//! channel, transient and permanent writer faults, purity and hash-seed independence.
use crate::common::{catch, Outcome, Stats, Violation};
use crate::engine::{self, canon, kind_tag, new_tera, Config};
use crate::gen::{CompInfo, Gen, GenCfg};
use crate::rng::{Fnv, Rng};
use crate::sval::{gen_context, gen_global_context, SCtx, SVal};
use crate::writer::{FaultAt, FaultKind, SimWriter, WPlan, ALL_KINDS};
use ahash::sim::Mode;
use serde::{Deserialize, Serialize};
use tera::{Context, ErrorKind, Tera};

#[derive(Clone, Debug, Serialize, Deserialize, PartialEq)]
pub enum Target {
    Template { name: String },
    Block { name: String, block: String },
    Component { name: String, ctx: SCtx, body: Option<String>, autoescape: bool },
    Str { source: String, autoescape: bool },
}

#[derive(Clone, Debug, Serialize, Deserialize, PartialEq)]
pub struct ExplicitFault {
    pub target: usize,
    pub ctx: usize,
    pub plan: WPlan,
}

#[derive(Clone, Debug, Serialize, Deserialize, PartialEq)]
pub enum FaultSpec {
    None,
    /// `n` sampled fault points per render, drawn from `seed`
    Sample { n: usize, seed: u64 },
    /// every call index and every byte offset (outputs up to `cap` calls/bytes; sampled above)
    Exhaustive { cap: usize, seed: u64 },
    Explicit(Vec<ExplicitFault>),
}

#[derive(Clone, Debug, Serialize, Deserialize, PartialEq)]
pub struct RenderScenario {
    pub config: Config,
    pub hash_base: u64,
    pub templates: Vec<(String, String)>,
    pub contexts: Vec<SCtx>,
    pub targets: Vec<Target>,
    pub faults: FaultSpec,
    pub transient_seed: u64,
    /// property id violations are attributed to (C18, or C07 for the C07 batch)
    pub property: String,
    /// also run the fixed F1 probe set (DESIGN.md §7)
    #[serde(default)]
    pub f1_probes: bool,
    /// > 0: every context additionally holds `deep_v`, an array nested this many levels (built
    /// at execution time: a replay file cannot carry such a value, JSON parsers stop at 128
    /// levels), and the world has a template `zz_deep.html` that prints, compares, measures and
    /// iterates it
    #[serde(default)]
    pub deep_value_depth: usize,
    /// non-empty: the run has a known crash shape (finding F7: printing a context value nested
    /// ~20 000 levels overflows the stack) and is only ever executed in a sacrificial child
    #[serde(default)]
    pub crash_shape: String,
    #[serde(default)]
    pub sacrificial: bool,
    /// > 0: every context additionally holds `s_long` (a few KB of 1- to 4-byte characters, led
    /// by `big_values % 4` ASCII bytes so that every alignment occurs) and `m_big` (300 non-ASCII
    /// keys), built at execution time; the targets are expressions that FAIL with the value in
    /// the message
    #[serde(default)]
    pub big_values: usize,
}

fn big_values(variant: usize) -> (tera::Value, tera::Value) {
    let mut s = "x".repeat(variant % 4);
    let unit = "\u{e9}\u{4e2d}\u{1F389}a\u{df}\u{20ac}";
    while s.len() < 3000 {
        s.push_str(unit);
    }
    let mut m = tera::Map::new();
    for i in 0..300 {
        m.insert(tera::value::Key::from(format!("{}cl\u{e9}\u{4e2d}{}", "k".repeat(i % 3), i)), tera::Value::from(i as i64));
    }
    (tera::Value::from(s.as_str()), tera::Value::from(m))
}

pub const DEEP_TEMPLATE: &str = "zz_deep.html";

fn nested_value(depth: usize) -> tera::Value {
    let mut v = tera::Value::from(1i64);
    for _ in 0..depth {
        v = tera::Value::from(vec![v]);
    }
    v
}

pub fn comp_probe_ctx(c: &CompInfo, with_extra: bool) -> SCtx {
    comp_probe_ctx_x(c, if with_extra { 1 } else { 0 })
}

/// `extra`: 0 none, 1 an integer, 2 an undefined value, 3 none (a declared parameter is
/// undefined instead). Never more than ONE undeclared argument (two would make the error text
/// order-dependent).
pub fn comp_probe_ctx_x(c: &CompInfo, extra: u8) -> SCtx {
    let mut v = Vec::new();
    for p in &c.params {
        let val = match p.name.as_str() {
            "label" | "title" | "k" => SVal::str("L<b>&"),
            "count" => SVal::I64(2),
            "flag" => SVal::Bool(true),
            "items" => SVal::Arr(vec![SVal::I64(1), SVal::str("<i>")]),
            _ => SVal::map(vec![("a", SVal::I64(1)), ("b", SVal::str("<b>"))]),
        };
        v.push((p.name.clone(), val));
    }
    match extra {
        1 => v.push(("zz_extra".to_string(), SVal::I64(9))),
        2 => v.push(("zz_extra".to_string(), SVal::Undef)),
        3 => {
            if let Some(first) = v.first_mut() {
                first.1 = SVal::Undef;
            }
        }
        _ => {}
    }
    SCtx(v)
}

pub fn generate(seed: u64, tier: &str, property: &str) -> RenderScenario {
    let rng = Rng::new(seed);
    let cfg = GenCfg::swarm(&rng);
    let config = Config {
        autoescape: match rng.below(6) {
            0 => Some(vec![]),
            1 => Some(vec![".txt".to_string(), ".html".to_string()]),
            _ => None,
        },
        prefixes: cfg.prefixes.clone(),
        delims: cfg.delims.clone(),
        global: gen_global_context(&rng),
        custom: cfg.custom,
    };
    let grng = rng.fork(1);
    let mut g = Gen::new(&grng, cfg);
    for i in 0..g.cfg.n_templates {
        g.gen_template(i);
    }
    let n_oneoff = g.rng.range(0, 2);
    let oneoffs: Vec<String> = (0..n_oneoff).map(|_| g.gen_one_off()).collect();
    let world = g.world;

    let contexts = vec![gen_context(&rng, 0), gen_context(&rng, 1), gen_context(&rng, 2)];
    let mut targets = Vec::new();
    for t in &world.info {
        targets.push(Target::Template { name: t.name.clone() });
    }
    for t in &world.info {
        for b in &t.chain_blocks {
            if rng.chance(1, 2) {
                targets.push(Target::Block { name: t.name.clone(), block: b.clone() });
            }
        }
    }
    for c in &world.comps {
        let extra = match rng.below(12) {
            0 | 1 => 1,
            2 => 2,
            3 => 3,
            _ => 0,
        };
        let body = match rng.below(6) {
            0 | 1 => Some("<em>body &amp; more</em>".to_string()),
            // a body is a value, never a template: syntax inside it must come out as text
            2 => Some("{{ nope }}{% endfor %}<{{ body }}>{# c #}\u{e9}".to_string()),
            3 => Some(String::new()),
            _ => None,
        };
        targets.push(Target::Component { name: c.name.clone(), ctx: comp_probe_ctx_x(c, extra), body, autoescape: rng.chance(1, 2) });
    }
    for s in oneoffs {
        targets.push(Target::Str { source: s, autoescape: rng.chance(1, 2) });
    }
    let faults = if tier == "thorough" {
        FaultSpec::Exhaustive { cap: 4000, seed: rng.next_u64() }
    } else {
        FaultSpec::Sample { n: 24, seed: rng.next_u64() }
    };
    let mut sc = RenderScenario {
        config,
        hash_base: rng.next_u64(),
        templates: world.templates,
        contexts,
        targets,
        faults,
        transient_seed: rng.next_u64(),
        property: property.to_string(),
        f1_probes: rng.chance(1, 8),
        deep_value_depth: 0,
        crash_shape: String::new(),
        sacrificial: false,
        big_values: 0,
    };
    // large outputs (every check that runs this engine): 100-300 KB through both channels, with
    // and without escaping, as a registered template and as a one-off — beyond any size hint,
    // buffer capacity or chunk size a render path may have
    if seed % 97 == 13 {
        let d = sc.config.delims.clone();
        let body = format!("{bs} for zi in range(end=40) {be}{vs} s_long {ve}|{vs} zi {ve}{bs} endfor {be}", vs = d.vs, ve = d.ve, bs = d.bs, be = d.be);
        sc.big_values = 1 + ((seed / 97) % 8) as usize;
        sc.templates.push(("zz_big.html".to_string(), body.clone()));
        sc.templates.push(("zz_big.txt".to_string(), body.clone()));
        sc.targets.push(Target::Template { name: "zz_big.html".to_string() });
        sc.targets.push(Target::Template { name: "zz_big.txt".to_string() });
        sc.targets.push(Target::Str { source: body, autoescape: seed % 2 == 0 });
        // (fault points are sampled in both tiers here: one faulted render of 150 KB costs
        // milliseconds, and the exhaustive tier would spend most of its time on these runs)
        sc.faults = FaultSpec::Sample { n: 48, seed: seed ^ 0x5EED_B16 };
    }
    // deeply nested context data (decided from the seed itself, no draw: everything else about
    // the scenario is what it would have been). C07's batch only: "with any context".
    if property == "C07" {
        let d = sc.config.delims.clone();
        let deep_src = format!(
            "{vs} deep_v {ve}|{vs} deep_v == deep_v {ve}|{vs} deep_v | length {ve}|{bs} for x in deep_v {be}{vs} x | length {ve}{bs} endfor {be}|{vs} [deep_v, deep_v] | unique | length {ve}",
            vs = d.vs, ve = d.ve, bs = d.bs, be = d.be
        );
        if seed % 61 == 7 {
            // hundreds of levels: must render (in-process)
            sc.deep_value_depth = 40 + ((seed / 61) % 900) as usize;
            sc.templates.push((DEEP_TEMPLATE.to_string(), deep_src));
            sc.targets.push(Target::Template { name: DEEP_TEMPLATE.to_string() });
        } else if seed % 61 == 9 {
            // long and wide values in failing expressions: the error text embeds them
            sc.big_values = 1 + ((seed / 61) % 8) as usize;
            for e in [
                "s_long | int", "m_big.nokey", "s_long.attr", "m_big | sort(attribute=\"a\")", "1 + s_long", "s_long | truncate(length=\"x\")", "s_long[\"k\"]", "m_big | join(sep=1) | int", "s_long ~ m_big | float",
                "m_big | get(key=s_long)", "throw(message=s_long)", "s_long is divisible_by(divisor=2)", "[s_long] | sort(attribute=\"z\")", "s_long | nope_attr.x", "range(end=s_long)",
            ] {
                let src = format!("{} {} {}", d.vs, d.sanitize_inner(e), d.ve);
                sc.targets.push(Target::Str { source: src, autoescape: seed % 2 == 0 });
            }
        } else if seed % 401 == 11 {
            // finding F7: ~20 000 levels abort the process; sacrificial child only
            sc.deep_value_depth = 20_000;
            sc.crash_shape = "deeply-nested-context-value-printed".to_string();
            sc.templates = vec![(DEEP_TEMPLATE.to_string(), format!("{} deep_v {}", d.vs, d.ve))];
            sc.targets = vec![Target::Template { name: DEEP_TEMPLATE.to_string() }];
            sc.faults = FaultSpec::None;
            sc.f1_probes = false;
        }
    }
    sc
}

pub struct RefRun {
    pub bytes: Vec<u8>,
    pub result: String,
    pub ok: bool,
    pub calls: usize,
}

pub fn run_target<W: std::io::Write>(t: &Tera, target: &Target, ctx: &Context, w: W) -> Result<(), tera::Error> {
    match target {
        Target::Template { name } => t.render_to(name, ctx, w),
        Target::Block { name, block } => t.render_block_to(name, block, ctx, w),
        Target::Component { name, ctx: cctx, body, autoescape } => {
            let c = cctx.to_context();
            t.render_component_to(name, &c, body.as_deref(), *autoescape, w)
        }
        Target::Str { source, autoescape } => t.render_str_to(source, ctx, *autoescape, w),
    }
}

pub fn run_target_string(t: &Tera, target: &Target, ctx: &Context) -> Result<String, tera::Error> {
    match target {
        Target::Template { name } => t.render(name, ctx),
        Target::Block { name, block } => t.render_block(name, block, ctx),
        Target::Component { name, ctx: cctx, body, autoescape } => {
            let c = cctx.to_context();
            t.render_component(name, &c, body.as_deref(), *autoescape)
        }
        Target::Str { source, autoescape } => t.render_str(source, ctx, *autoescape),
    }
}

fn target_ctx_eq(target: &Target, before: &Context) -> Option<bool> {
    if let Target::Component { ctx, .. } = target {
        Some(&ctx.to_context() == before)
    } else {
        None
    }
}

/// Fault points for one reference render.
fn fault_points(spec: &FaultSpec, ti: usize, ci: usize, k_calls: usize, bytes: &[u8], rot: &mut usize) -> Vec<WPlan> {
    let l = bytes.len();
    let mut out = Vec::new();
    let mut kind = |rot: &mut usize| {
        let k = ALL_KINDS[*rot % ALL_KINDS.len()];
        *rot += 1;
        k
    };
    match spec {
        FaultSpec::None => {}
        FaultSpec::Explicit(list) => {
            for e in list {
                if e.target == ti && e.ctx == ci {
                    out.push(e.plan.clone());
                }
            }
        }
        FaultSpec::Sample { n, seed } => {
            let mut rng = Rng::new(seed ^ ((ti as u64) << 32) ^ ci as u64);
            // multi-byte boundaries are interesting byte offsets
            let mb: Vec<usize> = bytes.iter().enumerate().filter(|(_, b)| **b >= 0x80).map(|(i, _)| i).collect();
            for j in 0..*n {
                let at = match j % 8 {
                    0 => FaultAt::Call(0),
                    1 if k_calls > 0 => FaultAt::Call(k_calls - 1),
                    2 => FaultAt::Byte(0),
                    3 if l > 0 => FaultAt::Byte(l - 1),
                    4 if !mb.is_empty() => FaultAt::Byte(rng.pick(&mb)),
                    5 | 6 if k_calls > 0 => FaultAt::Call(rng.below(k_calls)),
                    _ if l > 0 => FaultAt::Byte(rng.below(l)),
                    _ => FaultAt::Call(0),
                };
                let mut p = WPlan::fail(at, kind(rot));
                if rng.chance(1, 4) {
                    p.transient = Some(rng.next_u64());
                }
                out.push(p);
            }
        }
        FaultSpec::Exhaustive { cap, seed } => {
            let mut rng = Rng::new(seed ^ ((ti as u64) << 32) ^ ci as u64);
            if k_calls <= *cap {
                for k in 0..k_calls {
                    for _ in 0..3 {
                        out.push(WPlan::fail(FaultAt::Call(k), kind(rot)));
                    }
                }
            } else {
                for _ in 0..*cap {
                    out.push(WPlan::fail(FaultAt::Call(rng.below(k_calls)), kind(rot)));
                }
            }
            if l <= *cap {
                for b in 0..l {
                    out.push(WPlan::fail(FaultAt::Byte(b), kind(rot)));
                }
            } else {
                for _ in 0..*cap {
                    out.push(WPlan::fail(FaultAt::Byte(rng.below(l)), kind(rot)));
                }
            }
            // a few with transient noise in front of the permanent fault
            for _ in 0..8 {
                if k_calls > 0 {
                    let mut p = WPlan::fail(FaultAt::Call(rng.below(k_calls * 2)), kind(rot));
                    p.transient = Some(rng.next_u64());
                    out.push(p);
                }
            }
        }
    }
    out
}

fn shape_hash(target: &Target, templates: &[(String, String)]) -> u64 {
    // template-shape hash: the source with letters/digits collapsed, so that two worlds differing
    // only in marker text count once
    let mut f = Fnv::new();
    let src: &str = match target {
        Target::Template { name } | Target::Block { name, .. } => templates.iter().find(|(n, _)| n == name).map(|(_, s)| s.as_str()).unwrap_or(""),
        Target::Component { name, .. } => name,
        Target::Str { source, .. } => source,
    };
    let mut last_alnum = false;
    for c in src.chars() {
        if c.is_alphanumeric() {
            if !last_alnum {
                f.u64(1);
            }
            last_alnum = true;
        } else {
            last_alnum = false;
            f.u64(c as u64 + 2);
        }
    }
    f.u64(match target {
        Target::Template { .. } => 1,
        Target::Block { .. } => 2,
        Target::Component { .. } => 3,
        Target::Str { .. } => 4,
    });
    f.get()
}

pub fn execute(sc: &RenderScenario, stats: &mut Stats) -> Outcome {
    let mut out = Outcome::default();
    let mut log = Fnv::new();
    // writer/channel/purity invariants belong to C18 whichever check runs this engine
    let prop = "C18";
    if !sc.crash_shape.is_empty() && !sc.sacrificial {
        stats.inc("probe_f7_shape_scenario_generated");
        let mut d = sc.clone();
        d.sacrificial = true;
        out.deferred.push(serde_json::to_value(crate::Scn::Render(d)).unwrap());
        out.fingerprint = crate::rng::fnv1a(sc.crash_shape.as_bytes()) ^ sc.deep_value_depth as u64;
        return out;
    }
    ahash::sim::reset(Mode::PerInstance, sc.hash_base);
    if sc.f1_probes {
        out.violations.extend(f1_probes(sc.hash_base, stats));
        ahash::sim::reset(Mode::PerInstance, sc.hash_base);
    }
    let mut t = new_tera(&sc.config);
    stats.inc("worlds");
    match catch(|| t.add_raw_templates(sc.templates.iter().map(|(n, s)| (n.as_str(), s.as_str())))) {
        Err(p) => {
            out.violations.push(Violation::new("C06", "panic-in-add", p));
            return out;
        }
        Ok(Err(e)) => {
            stats.inc("worlds_rejected");
            stats.inc(&format!("worlds_rejected_{}", kind_tag(e.kind())));
            log.str(&format!("{}", e));
            stats.sample(3, || serde_json::json!({"rejected_world_error": engine::trunc(&format!("{}", e))}));
            out.fingerprint = log.get();
            return out;
        }
        Ok(Ok(())) => {}
    }
    let mut ctxs: Vec<Context> = sc.contexts.iter().map(|c| c.to_context()).collect();
    if sc.deep_value_depth > 0 {
        stats.inc("probe_deeply_nested_context_value");
        stats.maxi("deepest_context_value", sc.deep_value_depth as u64);
        let v = nested_value(sc.deep_value_depth);
        for c in ctxs.iter_mut() {
            c.insert_value("deep_v", v.clone());
        }
    }
    if sc.big_values > 0 {
        stats.inc("probe_big_context_values_in_failing_expressions");
        let (sv, mv) = big_values(sc.big_values);
        for c in ctxs.iter_mut() {
            c.insert_value("s_long", sv.clone());
            c.insert_value("m_big", mv.clone());
        }
    }
    let ctx_copies = ctxs.clone();
    let engine_before = format!("{:?}", t);
    let mut rot = 0usize;
    // (target, ctx, result, bytes) of every reference run, for the order-independence pass
    let mut firsts: Vec<(usize, usize, String, Vec<u8>)> = Vec::new();

    for (ti, target) in sc.targets.iter().enumerate() {
        let shape = shape_hash(target, &sc.templates);
        for (ci, ctx) in ctxs.iter().enumerate() {
            // component targets carry their own context: one pass is enough
            if matches!(target, Target::Component { .. }) && ci > 0 {
                continue;
            }
            if let FaultSpec::Explicit(list) = &sc.faults {
                if !list.is_empty() && !list.iter().any(|e| e.target == ti && e.ctx == ci) {
                    continue;
                }
            }
            // ---- reference: perfect writer
            let steps0 = engine::steps();
            let mut w = SimWriter::new(WPlan::perfect());
            engine::escape_calls_reset();
            // bounded liveness without a wall clock: the generator keeps predicted work far below
            engine::set_step_limit(engine::steps() + 50_000_000);
            let rr = catch(|| run_target(&t, target, ctx, &mut w));
            engine::clear_step_limit();
            let hit = engine::step_limit_hit();
            let esc_calls = engine::escape_calls();
            let r = match rr {
                Ok(r) => r,
                Err(p) => {
                    let inv = if hit { "render-exceeds-step-budget" } else { "panic-in-render" };
                    out.violations.push(Violation::new("C07", inv, format!("target {} ctx {}: {}", ti, ci, p)));
                    continue;
                }
            };
            let rf = RefRun { result: rtag(&r), ok: r.is_ok(), calls: w.stats.calls, bytes: std::mem::take(&mut w.accepted) };
            stats.inc("renders");
            stats.inc(if rf.ok { "renders_ok" } else { "renders_err" });
            stats.add("vm_steps", engine::steps() - steps0);
            stats.add("ref_write_calls", rf.calls as u64);
            stats.add("ref_bytes", rf.bytes.len() as u64);
            log.bytes(&rf.bytes);
            log.str(&rf.result);
            firsts.push((ti, ci, rf.result.clone(), rf.bytes.clone()));
            if let Some(v) = engine::take_end_state_violation() {
                out.violations.push(Violation::new("C07", "end-state-not-empty", format!("target {} ctx {}: stack/loops/captures = {:?}", ti, ci, v)));
            }
            if rf.ok && std::str::from_utf8(&rf.bytes).is_err() {
                out.violations.push(Violation::new("C07", "output-not-utf8", format!("target {} ctx {}", ti, ci)));
            }
            if let Err(e) = &r {
                if matches!(e.kind(), ErrorKind::Io(_)) {
                    out.violations.push(Violation::new(prop, "io-error-without-fault", format!("target {} ctx {}: {}", ti, ci, e)));
                }
                // registered names must never be "not found" at render time
                match (e.kind(), target) {
                    (ErrorKind::TemplateNotFound(_), Target::Template { .. }) | (ErrorKind::ComponentNotFound(_), Target::Component { .. }) => {
                        out.violations.push(Violation::new("C07", "registered-name-not-found", format!("target {:?}: {}", target, e)));
                    }
                    _ => {}
                }
                if format!("{}", e).contains("not properly finalized") {
                    out.violations.push(Violation::new("C07", "not-finalized-at-render", format!("target {:?}: {}", target, e)));
                }
            }

            // ---- (a) channel agreement: String API, Vec, transient writer
            match catch(|| run_target_string(&t, target, ctx)) {
                Err(p) => out.violations.push(Violation::new("C07", "panic-in-render", format!("string api target {} ctx {}: {}", ti, ci, p))),
                Ok(sr) => {
                    let agree = match (&sr, rf.ok) {
                        (Ok(s), true) => s.as_bytes() == rf.bytes.as_slice(),
                        (Err(_), false) => rtag(&sr) == rf.result,
                        _ => false,
                    };
                    if !agree {
                        out.violations.push(Violation::new(
                            prop,
                            "string-api-disagrees-with-writer-api",
                            format!("target {} ctx {}: string={} writer={} bytes={:?}", ti, ci, engine::trunc(&canon(&sr)), rf.result, engine::trunc(&String::from_utf8_lossy(&rf.bytes))),
                        ));
                    }
                }
            }
            let mut v: Vec<u8> = Vec::new();
            match catch(|| run_target(&t, target, ctx, &mut v)) {
                Err(p) => out.violations.push(Violation::new("C07", "panic-in-render", format!("vec target {} ctx {}: {}", ti, ci, p))),
                Ok(vr) => {
                    if rtag(&vr) != rf.result || v != rf.bytes {
                        out.violations.push(Violation::new(prop, "repeat-render-differs", format!("target {} ctx {}: Vec writer run differs from first run", ti, ci)));
                    }
                }
            }
            let mut tw = SimWriter::new(WPlan::transient(sc.transient_seed ^ ((ti as u64) << 20) ^ ci as u64));
            match catch(|| run_target(&t, target, ctx, &mut tw)) {
                Err(p) => out.violations.push(Violation::new(prop, "panic-under-transient-writer", format!("target {} ctx {}: {}", ti, ci, p))),
                Ok(tr) => {
                    stats.add("fault_fired_short_write", tw.stats.short_writes as u64);
                    stats.add("fault_fired_interrupted", tw.stats.interrupts as u64);
                    if rtag(&tr) != rf.result || tw.accepted != rf.bytes {
                        out.violations.push(Violation::new(
                            prop,
                            "transient-writer-changes-output",
                            format!(
                                "target {} ctx {}: with short writes/EINTR result={} bytes={:?}; reference result={} bytes={:?}",
                                ti,
                                ci,
                                rtag(&tr),
                                engine::trunc(&String::from_utf8_lossy(&tw.accepted)),
                                rf.result,
                                engine::trunc(&String::from_utf8_lossy(&rf.bytes))
                            ),
                        ));
                    }
                }
            }

            // ---- (b) permanent faults
            for plan in fault_points(&sc.faults, ti, ci, rf.calls, &rf.bytes, &mut rot) {
                let (at, kind) = plan.fault.unwrap();
                let mut fw = SimWriter::new(plan.clone());
                let res = catch(|| run_target(&t, target, ctx, &mut fw));
                stats.inc("faulted_renders");
                stats.inc(&format!("fault_configured_{:?}", kind));
                let _ = engine::take_end_state_violation();
                let loc = || format!("target {} ctx {} plan {:?}", ti, ci, plan);
                match res {
                    Err(p) => {
                        out.violations.push(Violation::new(prop, "panic-under-writer-fault", format!("{}: {}", loc(), p)));
                    }
                    Ok(r) => {
                        if fw.stats.fired {
                            stats.inc(&format!("fault_fired_{:?}", kind));
                            // reach probes: what kind of template the fault landed in
                            let src: &str = match target {
                                Target::Template { name } | Target::Block { name, .. } => sc.templates.iter().find(|(n, _)| n == name).map(|(_, s)| s.as_str()).unwrap_or(""),
                                Target::Str { source, .. } => source,
                                Target::Component { .. } => "component",
                            };
                            if src.contains("include ") {
                                stats.inc("probe_fault_in_template_with_include");
                            }
                            if src.contains("extends ") {
                                stats.inc("probe_fault_in_child_template");
                            }
                            if src.contains("super()") {
                                stats.inc("probe_fault_in_template_with_super");
                            }
                            if src.contains(" set ") && src.contains("endset") || src.contains("endfilter") {
                                stats.inc("probe_fault_in_template_with_capture");
                            }
                            if src.contains("/>") || src.contains("</") || src == "component" {
                                stats.inc("probe_fault_in_template_with_component_call");
                            }
                            if matches!(target, Target::Block { .. }) {
                                stats.inc("probe_fault_in_render_block_to");
                            }
                            if matches!(target, Target::Str { .. }) {
                                stats.inc("probe_fault_in_render_str_to");
                            }
                            if plan.transient.is_some() {
                                stats.inc("probe_permanent_fault_after_transient_noise");
                            }
                            if !rf.ok {
                                stats.inc("probe_fault_before_a_render_error");
                            }
                            stats.add("writes_after_fault", fw.stats.calls_after_fault as u64);
                            let inside = !rf.bytes.is_empty() && fw.accepted.len() < rf.bytes.len();
                            if rf.calls >= 2 && inside {
                                let pos_class = match at {
                                    FaultAt::Call(k) => {
                                        if k == 0 {
                                            0
                                        } else if k + 1 == rf.calls {
                                            1
                                        } else {
                                            2
                                        }
                                    }
                                    FaultAt::Byte(b) => {
                                        if b == 0 {
                                            3
                                        } else if rf.bytes.get(b).map(|x| *x >= 0x80).unwrap_or(false) {
                                            4
                                        } else {
                                            5
                                        }
                                    }
                                };
                                let mut f = Fnv::new();
                                f.u64(shape);
                                f.u64(kind as u64);
                                f.u64(pos_class);
                                stats.distinct.insert(f.get());
                                stats.inc("nontrivial_faulted_renders");
                            }
                            match &r {
                                Ok(()) => out.violations.push(Violation::new(prop, "writer-fault-not-surfaced", format!("{}: render_to returned Ok although the writer failed", loc()))),
                                Err(e) => {
                                    let _ = format!("{} {:?}", e, e);
                                    match e.kind() {
                                        ErrorKind::Io(k) if *k == kind.io_kind() => {}
                                        other => out.violations.push(Violation::new(
                                            prop,
                                            "writer-fault-wrong-error",
                                            format!("{}: expected Io({:?}), got {}", loc(), kind.io_kind(), kind_tag(other)),
                                        )),
                                    }
                                }
                            }
                            if !rf.bytes.starts_with(&fw.accepted) {
                                out.violations.push(Violation::new(
                                    prop,
                                    "accepted-bytes-not-a-prefix",
                                    format!("{}: accepted {:?} vs full {:?}", loc(), engine::trunc(&String::from_utf8_lossy(&fw.accepted)), engine::trunc(&String::from_utf8_lossy(&rf.bytes))),
                                ));
                            }
                        } else {
                            stats.inc("fault_not_reached");
                            if rtag(&r) != rf.result || fw.accepted != rf.bytes {
                                out.violations.push(Violation::new(prop, "unfired-fault-changes-output", loc()));
                            }
                        }
                        log.u64(fw.accepted.len() as u64);
                        log.u64(fw.stats.fired as u64);
                    }
                }
            }

            // ---- (b') the user's escape function fails (existing callback seam): an error value,
            // never a panic — also while a capture, include, block or component is open
            if sc.config.custom && esc_calls > 0 {
                let n_points = if matches!(sc.faults, FaultSpec::Exhaustive { .. }) { 48 } else { 6 };
                let erng = Rng::new(sc.transient_seed ^ 0xE5CA ^ ((ti as u64) << 16) ^ ci as u64);
                for j in 0..n_points.min(esc_calls) {
                    let k = if j == 0 { 0 } else if j == 1 { esc_calls - 1 } else { erng.below(esc_calls as usize) as u64 };
                    engine::escape_calls_reset();
                    engine::set_escape_fault(Some(k));
                    let mut ew = SimWriter::new(WPlan::perfect());
                    let res = catch(|| run_target(&t, target, ctx, &mut ew));
                    engine::set_escape_fault(None);
                    let fired = engine::escape_fault_fired();
                    stats.inc("fault_configured_escape_fn_error");
                    let _ = engine::take_end_state_violation();
                    match res {
                        Err(p) => out.violations.push(Violation::new("C07", "panic-when-escape-fn-fails", format!("target {} ctx {} escape call {}: {}", ti, ci, k, p))),
                        Ok(r) => {
                            if fired {
                                stats.inc("fault_fired_escape_fn_error");
                                if r.is_ok() {
                                    stats.inc("probe_escape_fn_error_swallowed");
                                }
                                if !rf.bytes.starts_with(&ew.accepted) {
                                    stats.inc("probe_escape_fn_error_output_not_prefix");
                                }
                            }
                        }
                    }
                }
                engine::escape_calls_reset();
            }

            // ---- (c) purity of the context
            if ctxs[ci] != ctx_copies[ci] {
                out.violations.push(Violation::new(prop, "context-modified-by-render", format!("target {} ctx {}", ti, ci)));
            }
            let _ = target_ctx_eq(target, &ctx_copies[ci]);

            // ---- (c)/(d) repeat under another hash-key stream
            ahash::sim::reset(Mode::PerInstance, sc.hash_base ^ 0xA5A5_5A5A_0F0F_F0F0 ^ (ti as u64 * 131 + ci as u64));
            let mut w2 = SimWriter::new(WPlan::perfect());
            match catch(|| run_target(&t, target, ctx, &mut w2)) {
                Err(p) => out.violations.push(Violation::new("C07", "panic-in-render", format!("repeat target {} ctx {}: {}", ti, ci, p))),
                Ok(r2) => {
                    stats.inc("repeat_renders");
                    if rtag(&r2) != rf.result || w2.accepted != rf.bytes {
                        out.violations.push(
                            Violation::new(
                                prop,
                                "repeat-render-differs",
                                format!(
                                    "target {} ctx {}: second render on the same engine and context differs: first={} {:?} second={} {:?}",
                                    ti,
                                    ci,
                                    rf.result,
                                    engine::trunc(&String::from_utf8_lossy(&rf.bytes)),
                                    rtag(&r2),
                                    engine::trunc(&String::from_utf8_lossy(&w2.accepted))
                                ),
                            )
                            .with_sig("site", "generated-world"),
                        );
                    }
                }
            }
        }
    }
    if format!("{:?}", t) != engine_before {
        out.violations.push(Violation::new(prop, "engine-modified-by-render", "Debug(Tera) changed across renders".into()));
    }
    // ---- (e) purity across renders: a second instance of the same registry renders the same
    // targets in the opposite order (under another hash-key stream); every result must be what
    // the first instance produced, whatever was rendered before it on either instance
    if firsts.len() >= 2 && out.violations.is_empty() {
        ahash::sim::reset(Mode::PerInstance, sc.hash_base ^ 0x0DD0_0DD0_1234_4321);
        let mut t2 = new_tera(&sc.config);
        if let Ok(Ok(())) = catch(|| t2.add_raw_templates(sc.templates.iter().map(|(n, s)| (n.as_str(), s.as_str())))) {
            for (ti, ci, res1, bytes1) in firsts.iter().rev() {
                let mut w = SimWriter::new(WPlan::perfect());
                engine::set_step_limit(engine::steps() + 50_000_000);
                let rr = catch(|| run_target(&t2, &sc.targets[*ti], &ctxs[*ci], &mut w));
                engine::clear_step_limit();
                let _ = engine::take_end_state_violation();
                match rr {
                    Err(p) => out.violations.push(Violation::new("C07", "panic-in-render", format!("reverse-order target {} ctx {}: {}", ti, ci, p))),
                    Ok(r2) => {
                        stats.inc("reverse_order_renders");
                        if &rtag(&r2) != res1 || &w.accepted != bytes1 {
                            out.violations.push(Violation::new(
                                prop,
                                "render-depends-on-earlier-renders",
                                format!(
                                    "target {} ctx {}: rendered after the other targets on one instance: {} {:?}; rendered before them on a second instance of the same registry: {} {:?}",
                                    ti,
                                    ci,
                                    res1,
                                    engine::trunc(&String::from_utf8_lossy(bytes1)),
                                    rtag(&r2),
                                    engine::trunc(&String::from_utf8_lossy(&w.accepted))
                                ),
                            ));
                            break;
                        }
                    }
                }
            }
        } else {
            out.violations.push(Violation::new("C10", "acceptance-depends-on-history", "a second instance refused the batch the first one accepted".into()));
        }
    }
    // ---- (f) the engine's global context changes between renders: the long-lived instance,
    // rendering with the long-lived `Context` objects it has rendered with before, must produce
    // what a new instance configured with the changed global context produces from new `Context`
    // objects (nothing derived from the old global context may survive anywhere)
    if !firsts.is_empty() && out.violations.is_empty() {
        let mut cfg2 = sc.config.clone();
        cfg2.global.0.retain(|(k, _)| k != "g_only" && k != "s_any");
        cfg2.global.0.push(("g_only".to_string(), crate::sval::SVal::str("<g changed & more>")));
        cfg2.global.0.push(("zz_g2".to_string(), crate::sval::SVal::I64(7)));
        t.global_context().remove("s_any");
        t.global_context().insert_value("g_only", tera::Value::from("<g changed & more>"));
        let mut extra = Context::new();
        extra.insert_value("zz_g2", tera::Value::from(7i64));
        t.global_context().extend(extra);
        ahash::sim::reset(Mode::PerInstance, sc.hash_base ^ 0x6C0B_A1C0_6C0B_A1C0);
        let mut t3 = new_tera(&cfg2);
        if let Ok(Ok(())) = catch(|| t3.add_raw_templates(sc.templates.iter().map(|(n, s)| (n.as_str(), s.as_str())))) {
            let mut fresh_ctxs: Vec<Context> = sc.contexts.iter().map(|c| c.to_context()).collect();
            if sc.deep_value_depth > 0 {
                let v = nested_value(sc.deep_value_depth);
                for c in fresh_ctxs.iter_mut() {
                    c.insert_value("deep_v", v.clone());
                }
            }
            if sc.big_values > 0 {
                let (sv, mv) = big_values(sc.big_values);
                for c in fresh_ctxs.iter_mut() {
                    c.insert_value("s_long", sv.clone());
                    c.insert_value("m_big", mv.clone());
                }
            }
            for (ti, ci, _, _) in firsts.iter() {
                let mut wa = SimWriter::new(WPlan::perfect());
                let mut wb = SimWriter::new(WPlan::perfect());
                engine::set_step_limit(engine::steps() + 100_000_000);
                let ra = catch(|| run_target(&t, &sc.targets[*ti], &ctxs[*ci], &mut wa));
                let rb = catch(|| run_target(&t3, &sc.targets[*ti], &fresh_ctxs[*ci], &mut wb));
                engine::clear_step_limit();
                let _ = engine::take_end_state_violation();
                match (ra, rb) {
                    (Ok(a), Ok(b)) => {
                        stats.inc("global_context_change_renders");
                        if rtag(&a) != rtag(&b) || wa.accepted != wb.accepted {
                            out.violations.push(Violation::new(
                                prop,
                                "stale-global-context",
                                format!(
                                    "target {} ctx {}: after global_context() changed, the long-lived engine and Context give {} {:?}; a new engine with that global context and a new Context give {} {:?}",
                                    ti,
                                    ci,
                                    rtag(&a),
                                    engine::trunc(&String::from_utf8_lossy(&wa.accepted)),
                                    rtag(&b),
                                    engine::trunc(&String::from_utf8_lossy(&wb.accepted))
                                ),
                            ));
                            break;
                        }
                    }
                    (Err(p), _) | (_, Err(p)) => {
                        out.violations.push(Violation::new("C07", "panic-in-render", format!("after global context change, target {} ctx {}: {}", ti, ci, p)));
                        break;
                    }
                }
            }
        }
    }
    stats.sample(4, || {
        serde_json::json!({
            "templates": sc.templates.iter().take(3).map(|(n, s)| serde_json::json!({"name": n, "source": engine::trunc(s)})).collect::<Vec<_>>(),
            "n_templates": sc.templates.len(),
            "n_targets": sc.targets.len(),
            "delims": sc.config.delims.bs,
            "faults": match &sc.faults { FaultSpec::Sample{n,..} => format!("sample {}", n), FaultSpec::Exhaustive{cap,..} => format!("exhaustive cap {}", cap), FaultSpec::Explicit(l) => format!("explicit {}", l.len()), FaultSpec::None => "none".into() },
        })
    });
    out.fingerprint = log.get();
    out
}

/// "OK" or the canonical error text.
pub fn rtag<T>(r: &Result<T, tera::Error>) -> String {
    match r {
        Ok(_) => "OK".to_string(),
        Err(e) => format!("ERR[{}]:{}", kind_tag(e.kind()), e),
    }
}

// ------------------------------------------------------------------------------------------------
// F1 probe set (DESIGN.md §7): fixed tiny templates, one per site, repeated under distinct hash
// keys on the same engine and the same context.
// ------------------------------------------------------------------------------------------------

pub struct F1Probe {
    pub site: &'static str,
    pub templates: &'static [(&'static str, &'static str)],
    pub entry: &'static str,
}

pub const F1_PROBES: &[F1Probe] = &[
    F1Probe {
        site: "for-over-render-built-map",
        templates: &[("p", "{% set mp = {\"alpha\": s, \"beta\": 2, \"gamma\": 3, \"delta\": 4, \"eps\": 5} %}{% for k, v in mp %}{{ k }}={{ v }};{% endfor %}")],
        entry: "p",
    },
    F1Probe {
        site: "for-over-render-built-map",
        templates: &[(
            "p",
            "{% component Tag(name, ...attrs) %}<{{ name }}{% for k, v in attrs %} {{ k }}=\"{{ v }}\"{% endfor %}>{% endcomponent Tag %}{{ <Tag name=\"a\" href=\"x\" id=\"y\" class=\"z\" title=\"t\" rel=\"r\"/> }}",
        )],
        entry: "p",
    },
    F1Probe {
        site: "for-over-render-built-map",
        templates: &[("p", "{% for k, v in rows | group_by(attribute=\"g\") %}{{ k }}:{{ v | length }};{% endfor %}")],
        entry: "p",
    },
    F1Probe {
        site: "keys-values-pairs-on-render-built-map",
        templates: &[("p", "{% set mp = {\"alpha\": s, \"beta\": 2, \"gamma\": 3, \"delta\": 4, \"eps\": 5} %}{{ mp | keys | safe }}{{ mp | values | safe }}{{ mp | pairs | safe }}")],
        entry: "p",
    },
    F1Probe {
        site: "for-over-context-dump",
        templates: &[("p", "{% for k, v in __tera_context %}{{ k }};{% endfor %}")],
        entry: "p",
    },
];

pub fn f1_context() -> Context {
    let mut c = Context::new();
    c.insert_value("s", tera::Value::from("one"));
    c.insert_value("a", tera::Value::from(1));
    c.insert_value("b", tera::Value::from(2));
    c.insert_value("c", tera::Value::from(3));
    c.insert_value("d", tera::Value::from(4));
    let rows: Vec<tera::Value> = ["x", "y", "z", "w", "v"]
        .iter()
        .map(|g| {
            let mut m = tera::Map::new();
            m.insert(tera::value::Key::from("g".to_string()), tera::Value::from(*g));
            tera::Value::from(m)
        })
        .collect();
    c.insert_value("rows", tera::Value::from(rows));
    c
}

/// Returns one violation per probe whose repeated renders are not byte-identical.
pub fn f1_probes(hash_base: u64, stats: &mut Stats) -> Vec<Violation> {
    let mut out = Vec::new();
    let ctx = f1_context();
    for (pi, p) in F1_PROBES.iter().enumerate() {
        ahash::sim::reset(Mode::PerInstance, hash_base ^ pi as u64);
        let mut t = Tera::default();
        if t.add_raw_templates(p.templates.iter().cloned()).is_err() {
            continue;
        }
        let first = canon(&t.render(p.entry, &ctx));
        let mut distinct = std::collections::BTreeSet::new();
        distinct.insert(first.clone());
        for _ in 0..24 {
            stats.inc("f1_probe_renders");
            distinct.insert(canon(&t.render(p.entry, &ctx)));
        }
        if distinct.len() > 1 {
            let two: Vec<&String> = distinct.iter().take(2).collect();
            out.push(
                Violation::new(
                    "C18",
                    "repeat-render-differs",
                    format!("probe {} ({}): {} distinct outputs in 25 renders of the same engine and context, e.g. {:?} vs {:?}", pi, p.site, distinct.len(), engine::trunc(two[0]), engine::trunc(two[1])),
                )
                .with_sig("site", p.site),
            );
        }
    }
    // component-unknown-args-message: std HashSet (not behind the hash seam)
    {
        let mut t = Tera::default();
        let _ = t.add_raw_template("c", "{% component K(a) %}{{ a }}{% endcomponent K %}");
        let mut cx = Context::new();
        for k in ["a", "u1", "u2", "u3", "u4", "u5"] {
            cx.insert_value(k, tera::Value::from(1));
        }
        let mut distinct = std::collections::BTreeSet::new();
        for _ in 0..25 {
            stats.inc("f1_probe_renders");
            distinct.insert(canon(&t.render_component("K", &cx, None, true)));
        }
        if distinct.len() > 1 {
            let two: Vec<&String> = distinct.iter().take(2).collect();
            out.push(
                Violation::new("C18", "repeat-render-differs", format!("probe unknown-args: {} distinct error texts in 25 calls, e.g. {:?} vs {:?}", distinct.len(), two[0], two[1]))
                    .with_sig("site", "component-unknown-args-message"),
            );
        }
    }
    out
}

// ------------------------------------------------------------------------------------------------
// shrinking
// ------------------------------------------------------------------------------------------------

pub fn shrink_candidates(sc: &RenderScenario) -> Vec<RenderScenario> {
    let mut out = Vec::new();
    // drop a target
    if sc.targets.len() > 1 {
        for i in 0..sc.targets.len() {
            let mut c = sc.clone();
            c.targets.remove(i);
            if let FaultSpec::Explicit(l) = &mut c.faults {
                l.retain(|e| e.target != i);
                for e in l.iter_mut() {
                    if e.target > i {
                        e.target -= 1;
                    }
                }
            }
            out.push(c);
        }
    }
    // drop a template
    if sc.templates.len() > 1 {
        for i in 0..sc.templates.len() {
            let mut c = sc.clone();
            c.templates.remove(i);
            out.push(c);
        }
    }
    // drop context keys
    for ci in 0..sc.contexts.len() {
        for k in 0..sc.contexts[ci].0.len() {
            let mut c = sc.clone();
            c.contexts[ci].0.remove(k);
            out.push(c);
        }
    }
    // simplify config
    if sc.config.custom {
        let mut c = sc.clone();
        c.config.custom = false;
        out.push(c);
    }
    if sc.f1_probes {
        let mut c = sc.clone();
        c.f1_probes = false;
        out.push(c);
    }
    if !sc.config.global.0.is_empty() {
        let mut c = sc.clone();
        c.config.global.0.clear();
        out.push(c);
    }
    if sc.config.autoescape.is_some() {
        let mut c = sc.clone();
        c.config.autoescape = None;
        out.push(c);
    }
    // no sampled faults
    if !matches!(sc.faults, FaultSpec::None | FaultSpec::Explicit(_)) {
        let mut c = sc.clone();
        c.faults = FaultSpec::None;
        out.push(c);
        // ... or one explicit, early fault instead of the sampled / enumerated plan
        for t in 0..sc.targets.len().min(4) {
            for cx in 0..sc.contexts.len().min(3) {
                for at in [FaultAt::Call(0), FaultAt::Byte(0), FaultAt::Call(1), FaultAt::Byte(1), FaultAt::Call(2), FaultAt::Byte(3), FaultAt::Call(5), FaultAt::Byte(9)] {
                    for kind in [FaultKind::BrokenPipe, FaultKind::WriteZero] {
                        let mut c = sc.clone();
                        c.faults = FaultSpec::Explicit(vec![ExplicitFault { target: t, ctx: cx, plan: WPlan::fail(at, kind) }]);
                        out.push(c);
                    }
                }
            }
        }
    }
    if let FaultSpec::Explicit(l) = &sc.faults {
        if l.len() > 1 {
            for i in 0..l.len() {
                let mut c = sc.clone();
                if let FaultSpec::Explicit(l2) = &mut c.faults {
                    l2.remove(i);
                }
                out.push(c);
            }
        }
    }
    // shrink sources: remove chunks
    for i in 0..sc.templates.len() {
        for cand in crate::minimize::text_chunks(&sc.templates[i].1) {
            let mut c = sc.clone();
            c.templates[i].1 = cand;
            out.push(c);
        }
    }
    for (i, t) in sc.targets.iter().enumerate() {
        if let Target::Str { source, autoescape } = t {
            for cand in crate::minimize::text_chunks(source) {
                let mut c = sc.clone();
                c.targets[i] = Target::Str { source: cand, autoescape: *autoescape };
                out.push(c);
            }
        }
    }
    out
}

#[allow(dead_code)]
pub fn unused(_: FaultKind) {}
