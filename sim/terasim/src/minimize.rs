//! Delta-debugging minimiser over explicit scenarios (DESIGN.md §2.6).
use std::time::{Duration, Instant};

/// Candidate shrinks of a text: remove one of 2, 4, 8 … chunks (on char boundaries).
pub fn text_chunks(s: &str) -> Vec<String> {
    let mut out = Vec::new();
    let n = s.len();
    if n == 0 {
        return out;
    }
    let mut parts = 2usize;
    while parts <= 16 && parts <= n {
        let size = n.div_ceil(parts);
        let mut start = 0;
        while start < n {
            let mut a = start;
            let mut b = (start + size).min(n);
            while !s.is_char_boundary(a) {
                a -= 1;
            }
            while !s.is_char_boundary(b) {
                b += 1;
            }
            let mut t = String::with_capacity(n);
            t.push_str(&s[..a]);
            t.push_str(&s[b..]);
            if t.len() < n {
                out.push(t);
            }
            start += size;
        }
        parts *= 2;
    }
    out
}

/// Greedy fixed-point minimisation: accept the first candidate that still fails the same way.
/// The wall clock only bounds how far shrinking goes; it never decides whether a violation exists.
pub fn minimise<S: Clone>(start: S, still_fails: impl Fn(&S) -> bool, candidates: impl Fn(&S) -> Vec<S>, budget: Duration) -> (S, usize) {
    let t0 = Instant::now();
    let mut cur = start;
    let mut accepted = 0usize;
    'outer: loop {
        if t0.elapsed() > budget {
            break;
        }
        for cand in candidates(&cur) {
            if t0.elapsed() > budget {
                break 'outer;
            }
            if still_fails(&cand) {
                cur = cand;
                accepted += 1;
                continue 'outer;
            }
        }
        break;
    }
    (cur, accepted)
}
