//! regsim family *inherit* (C04): inheritance forests, an independent reference model of block
//! resolution / super() / render_block, and the history generator (DESIGN.md §5.4).
use crate::common::{catch, Outcome, Stats, Violation};
use crate::engine::{Config, Probe};
use crate::regsim::{Model, Op, OpNote, RegScenario};
use crate::rng::{Fnv, Rng};
use crate::sval::SCtx;
use std::collections::BTreeMap;
use tera::{Context, Tera};

#[derive(Clone, Debug, PartialEq)]
pub enum N {
    Text(String),
    Block(String, Vec<N>),
    Super,
    Filter(Vec<N>),
    /// `{% set zcN %}…{% endset %}{{ zcN | safe }}`: a capture printed right away (identity)
    Capture(usize, Vec<N>),
}

pub fn render_nodes(ns: &[N], out: &mut String) {
    for n in ns {
        match n {
            N::Text(t) => out.push_str(t),
            N::Block(b, ch) => {
                out.push_str(&format!("{{% block {} %}}", b));
                render_nodes(ch, out);
                out.push_str("{% endblock %}");
            }
            N::Super => out.push_str("{{ super() }}"),
            N::Filter(ch) => {
                out.push_str("{% filter upper %}");
                render_nodes(ch, out);
                out.push_str("{% endfilter %}");
            }
            N::Capture(id, ch) => {
                out.push_str(&format!("{{% set zc{} %}}", id));
                render_nodes(ch, out);
                out.push_str(&format!("{{% endset %}}{{{{ zc{} | safe }}}}", id));
            }
        }
    }
}

pub fn render_tpl(extends: Option<&str>, body: &[N]) -> String {
    let mut s = String::new();
    if let Some(e) = extends {
        s.push_str(&format!("{{% extends \"{}\" %}}", e));
    }
    render_nodes(body, &mut s);
    s
}

// ------------------------------------------------------------------------------------------------
// parsing the skeleton back from literal sources (so the model follows any history of literal
// (name, source) pairs, including minimised ones)
// ------------------------------------------------------------------------------------------------

pub struct ITpl {
    pub extends: Option<String>,
    pub body: Vec<N>,
}

pub fn parse_tpl(src: &str) -> Option<ITpl> {
    let mut rest = src;
    let mut extends = None;
    if let Some(r) = rest.strip_prefix("{% extends \"") {
        let end = r.find("\" %}")?;
        extends = Some(r[..end].to_string());
        rest = &r[end + 4..];
    }
    let (body, tail) = parse_nodes(rest)?;
    if !tail.is_empty() {
        return None;
    }
    Some(ITpl { extends, body })
}

fn parse_nodes(mut s: &str) -> Option<(Vec<N>, &str)> {
    let mut out = Vec::new();
    loop {
        if s.is_empty() || s.starts_with("{% endblock %}") || s.starts_with("{% endfilter %}") || s.starts_with("{% endset %}") {
            return Some((out, s));
        }
        if let Some(r) = s.strip_prefix("{% set zc") {
            let end = r.find(" %}")?;
            let id: usize = r[..end].parse().ok()?;
            let (ch, tail) = parse_nodes(&r[end + 3..])?;
            let close = format!("{{% endset %}}{{{{ zc{} | safe }}}}", id);
            s = tail.strip_prefix(close.as_str())?;
            out.push(N::Capture(id, ch));
            continue;
        }
        if let Some(r) = s.strip_prefix("{% block ") {
            let end = r.find(" %}")?;
            let name = r[..end].to_string();
            let (ch, tail) = parse_nodes(&r[end + 3..])?;
            s = tail.strip_prefix("{% endblock %}")?;
            out.push(N::Block(name, ch));
        } else if let Some(r) = s.strip_prefix("{% filter upper %}") {
            let (ch, tail) = parse_nodes(r)?;
            s = tail.strip_prefix("{% endfilter %}")?;
            out.push(N::Filter(ch));
        } else if let Some(r) = s.strip_prefix("{{ super() }}") {
            s = r;
            out.push(N::Super);
        } else {
            let next = s.find('{').unwrap_or(s.len());
            if next == 0 {
                return None; // something this skeleton does not contain
            }
            out.push(N::Text(s[..next].to_string()));
            s = &s[next..];
        }
    }
}

// ------------------------------------------------------------------------------------------------
// reference model
// ------------------------------------------------------------------------------------------------

pub struct InheritModel {
    pub tpls: BTreeMap<String, ITpl>,
    /// fallback prefixes: a name is looked up exactly first, then under each prefix in order
    pub prefixes: Vec<String>,
}

fn collect_defs<'a>(ns: &'a [N], out: &mut BTreeMap<String, &'a Vec<N>>) {
    for n in ns {
        match n {
            N::Block(b, ch) => {
                out.insert(b.clone(), ch);
                collect_defs(ch, out);
            }
            N::Filter(ch) | N::Capture(_, ch) => collect_defs(ch, out),
            _ => {}
        }
    }
}

struct Expander<'a> {
    /// per chain level (0 = entry … last = root): block definitions of that template
    defs: Vec<BTreeMap<String, &'a Vec<N>>>,
    /// last expansion text per block
    last: BTreeMap<String, String>,
    depth: usize,
}

pub const UNBOUNDED: &str = "unbounded block recursion";

impl<'a> Expander<'a> {
    /// chain levels that define `b`, nearest (most derived) first
    fn lineage(&self, b: &str) -> Vec<usize> {
        (0..self.defs.len()).filter(|i| self.defs[*i].contains_key(b)).collect()
    }

    fn expand(&mut self, ns: &[N], cur: Option<(&str, usize)>, out: &mut String) -> Result<(), String> {
        // The semantics themselves do not terminate for a block-nesting cycle through super()
        // (root: a{b{}}, child: b{a{super()}}): no legitimate forest of this generator nests
        // deeper than chain length x tree depth << 400.
        self.depth += 1;
        if self.depth > 400 {
            return Err(UNBOUNDED.to_string());
        }
        let r = self.expand_inner(ns, cur, out);
        self.depth -= 1;
        r
    }

    fn expand_inner(&mut self, ns: &[N], cur: Option<(&str, usize)>, out: &mut String) -> Result<(), String> {
        for n in ns {
            match n {
                N::Text(t) => out.push_str(t),
                N::Filter(ch) => {
                    let mut inner = String::new();
                    self.expand(ch, cur, &mut inner)?;
                    out.push_str(&inner.to_uppercase());
                }
                N::Capture(_, ch) => {
                    let mut inner = String::new();
                    self.expand(ch, cur, &mut inner)?;
                    out.push_str(&inner);
                }
                N::Block(b, _) => {
                    let lin = self.lineage(b);
                    let lvl = *lin.first().ok_or_else(|| format!("no definition for block {}", b))?;
                    let body: &Vec<N> = self.defs[lvl][b.as_str()];
                    let mut text = String::new();
                    self.expand(body, Some((b.as_str(), 0)), &mut text)?;
                    self.last.insert(b.clone(), text.clone());
                    out.push_str(&text);
                }
                N::Super => {
                    let (b, k) = cur.ok_or_else(|| "super() outside of a block".to_string())?;
                    let lin = self.lineage(b);
                    if k + 1 >= lin.len() {
                        return Err(format!("super() in the top level definition of block {}", b));
                    }
                    let body: &Vec<N> = self.defs[lin[k + 1]][b];
                    let mut text = String::new();
                    self.expand(body, Some((b, k + 1)), &mut text)?;
                    out.push_str(&text);
                }
            }
        }
        Ok(())
    }
}

impl InheritModel {
    pub fn from_model(m: &Model) -> Option<InheritModel> {
        let mut tpls = BTreeMap::new();
        for (k, e) in &m.tpls {
            tpls.insert(k.clone(), parse_tpl(&e.source)?);
        }
        Some(InheritModel { tpls, prefixes: m.config.prefixes.clone() })
    }

    /// The registry name a reference reaches (by-name entry points, `extends` targets).
    pub fn resolve(&self, name: &str) -> Option<String> {
        if self.tpls.contains_key(name) {
            return Some(name.to_string());
        }
        self.prefixes.iter().map(|p| format!("{}{}", p, name)).find(|n| self.tpls.contains_key(n))
    }

    fn chain(&self, entry: &str) -> Option<Vec<&ITpl>> {
        let mut out = Vec::new();
        let mut cur = self.resolve(entry)?;
        for _ in 0..64 {
            let t = self.tpls.get(&cur)?;
            out.push(t);
            match &t.extends {
                Some(p) => cur = self.resolve(p)?,
                None => return Some(out),
            }
        }
        None
    }

    /// (full render, last expansion per block) or the reason rendering fails.
    pub fn render(&self, entry: &str) -> Option<Result<(String, BTreeMap<String, String>), String>> {
        let chain = self.chain(entry)?;
        let mut defs = Vec::new();
        for t in &chain {
            let mut d = BTreeMap::new();
            collect_defs(&t.body, &mut d);
            defs.push(d);
        }
        let mut ex = Expander { defs, last: BTreeMap::new(), depth: 0 };
        let root = chain.last().unwrap();
        let mut out = String::new();
        Some(match ex.expand(&root.body, None, &mut out) {
            Ok(()) => Ok((out, ex.last)),
            Err(e) => Err(e),
        })
    }

    pub fn chain_blocks(&self, entry: &str) -> Vec<String> {
        let mut names = Vec::new();
        if let Some(chain) = self.chain(entry) {
            for t in chain {
                let mut d = BTreeMap::new();
                collect_defs(&t.body, &mut d);
                for k in d.keys() {
                    if !names.contains(k) {
                        names.push(k.clone());
                    }
                }
            }
        }
        names
    }
}

/// Does rendering some template of this set recurse without bound (finding F4)?
pub fn has_block_nesting_cycle(m: &Model) -> bool {
    let Some(im) = InheritModel::from_model(m) else { return false };
    m.tpls.keys().any(|n| matches!(im.render(n), Some(Err(e)) if e == UNBOUNDED))
}

pub fn check(sc: &RegScenario, model: &Model, t: &Tera, ctxs: &[Context], i: usize, stats: &mut Stats, out: &mut Outcome) {
    let Some(im) = InheritModel::from_model(model) else {
        stats.inc("inherit_model_unparsable");
        return;
    };
    let ctx = ctxs.first().cloned().unwrap_or_default();
    // every registry name, plus the short name of every prefixed template (by-name entry points
    // resolve exact names first, then the prefixes in order)
    let mut entry_names: Vec<String> = model.tpls.keys().cloned().collect();
    for k in model.tpls.keys() {
        for p in &im.prefixes {
            if let Some(short) = k.strip_prefix(p.as_str()) {
                if !entry_names.iter().any(|n| n == short) {
                    entry_names.push(short.to_string());
                }
            }
        }
    }
    for name in &entry_names {
        let Some(expect) = im.render(name) else { continue };
        stats.inc("evaluations_model_renders");
        let got = match catch(|| t.render(name, &ctx)) {
            Ok(r) => r,
            Err(p) => {
                out.violations.push(Violation::new("C07", "panic-in-render", format!("{}: {}", name, p)));
                continue;
            }
        };
        match (&expect, &got) {
            (Ok((text, _)), Ok(g)) => {
                if text != g {
                    out.violations.push(Violation::new("C04", "render-differs-from-inheritance-model", format!("after op {}: render({}) = {:?}, model = {:?}", i, name, g, text)));
                }
            }
            (Err(_), Err(e)) => {
                let m = format!("{}", e);
                if !m.contains("super()") {
                    out.violations.push(Violation::new("C04", "wrong-error-for-super-without-ancestor", format!("after op {}: render({}) fails with {}", i, name, crate::engine::trunc(&m))));
                }
            }
            (Ok((text, _)), Err(e)) => out.violations.push(Violation::new("C04", "render-fails-where-model-renders", format!("after op {}: render({}) = Err({}), model = {:?}", i, name, crate::engine::trunc(&format!("{}", e)), text))),
            (Err(why), Ok(g)) => out.violations.push(Violation::new("C04", "render-succeeds-where-model-fails", format!("after op {}: render({}) = {:?}, model: {}", i, name, g, why))),
        }
        // render_block for every block name of the chain (+ one absent name)
        let in_chain_blocks = im.chain_blocks(name);
        let mut blocks = in_chain_blocks.clone();
        blocks.push("zz_absent".to_string());
        // block names that exist elsewhere in the registry (another chain, a twin under another
        // resolution level) but not in the chain this name resolves to: absent for this name
        for b in &sc.probe.blocks {
            if !blocks.contains(b) {
                blocks.push(b.clone());
            }
        }
        for b in &blocks {
            stats.inc("evaluations_model_block_renders");
            let gb = match catch(|| t.render_block(name, b, &ctx)) {
                Ok(r) => r,
                Err(p) => {
                    out.violations.push(Violation::new("C07", "panic-in-render", format!("render_block({}, {}): {}", name, b, p)));
                    continue;
                }
            };
            let in_chain = in_chain_blocks.contains(b);
            match (&expect, &gb) {
                (_, Err(e)) if !in_chain => {
                    if !format!("{}", e).contains("not found") {
                        out.violations.push(Violation::new("C04", "render_block-absent-block-wrong-error", format!("{}", e)));
                    }
                }
                (_, Ok(g)) if !in_chain => out.violations.push(Violation::new("C04", "render_block-absent-block-succeeds", format!("render_block({}, {}) = {:?}", name, b, g))),
                (Ok((_, last)), Ok(g)) => {
                    let want = last.get(b).cloned().unwrap_or_default();
                    if last.contains_key(b) {
                        stats.inc("probe_render_block_of_reached_block");
                    } else {
                        stats.inc("probe_render_block_of_unreached_block");
                    }
                    if &want != g {
                        let inside_capture = block_inside_filter(&im, name, b);
                        let mut v = Violation::new(
                            "C04",
                            "render_block-differs-from-text-written-in-full-render",
                            format!("after op {}: render_block({}, {}) = {:?}, but the block writes {:?} during render({})", i, name, b, g, want, name),
                        );
                        if inside_capture && g.is_empty() {
                            v = v.with_sig("site", "render_block-of-block-inside-capture");
                        }
                        out.violations.push(v);
                    }
                }
                (Err(_), Err(_)) => {}
                (Ok(_), Err(e)) => out.violations.push(Violation::new("C04", "render_block-fails-where-render-succeeds", format!("render_block({}, {}): {}", name, b, crate::engine::trunc(&format!("{}", e))))),
                (Err(why), Ok(g)) => out.violations.push(Violation::new("C04", "render_block-succeeds-where-render-fails", format!("render_block({}, {}) = {:?}; model: {}", name, b, g, why))),
            }
        }
    }
}

/// Is some definition of `b` in the chain of `entry` nested in a filter section?
fn block_inside_filter(im: &InheritModel, entry: &str, b: &str) -> bool {
    fn walk(ns: &[N], b: &str, in_filter: bool) -> bool {
        for n in ns {
            match n {
                N::Block(name, ch) => {
                    if name == b && in_filter {
                        return true;
                    }
                    if walk(ch, b, in_filter) {
                        return true;
                    }
                }
                N::Filter(ch) | N::Capture(_, ch) => {
                    if walk(ch, b, true) {
                        return true;
                    }
                }
                _ => {}
            }
        }
        false
    }
    im.chain(entry).map(|c| c.iter().any(|t| walk(&t.body, b, false))).unwrap_or(false)
}

// ------------------------------------------------------------------------------------------------
// generator
// ------------------------------------------------------------------------------------------------

struct IGen<'a> {
    rng: &'a Rng,
    marker: usize,
    max_depth: usize,
}

impl<'a> IGen<'a> {
    fn text(&mut self) -> N {
        self.marker += 1;
        // unique lowercase tokens: every output byte is attributable, `upper` is trivial
        N::Text(format!("m{}q", self.marker))
    }

    /// body of a block or template. `avail`: names that may be (re)used for nested blocks in this
    /// template (removed when used); `fresh`: counter for brand-new names; `cur_has_anc`:
    /// whether `super()` here has something above.
    fn nodes(&mut self, depth: usize, used: &mut Vec<String>, pool: &[String], in_block: bool, super_rate: (usize, usize), allow_blocks: bool) -> Vec<N> {
        let n = self.rng.range(1, 3);
        let mut out = Vec::new();
        for _ in 0..n {
            match self.rng.below(10) {
                0..=3 => out.push(self.text()),
                4 | 5 if depth < self.max_depth && allow_blocks => {
                    let cands: Vec<&String> = pool.iter().filter(|p| !used.contains(p)).collect();
                    if cands.is_empty() {
                        out.push(self.text());
                        continue;
                    }
                    let name = (*self.rng.pick(&cands)).clone();
                    used.push(name.clone());
                    let ch = self.nodes(depth + 1, used, pool, true, super_rate, true);
                    out.push(N::Block(name, ch));
                }
                6 if depth < self.max_depth => {
                    let ch = self.nodes(depth + 1, used, pool, in_block, super_rate, allow_blocks);
                    if self.rng.chance(1, 3) {
                        self.marker += 1;
                        out.push(N::Capture(self.marker, ch));
                    } else {
                        out.push(N::Filter(ch));
                    }
                }
                7 | 8 if in_block && self.rng.chance(super_rate.0, super_rate.1) => out.push(N::Super),
                _ => out.push(self.text()),
            }
        }
        out
    }
}

pub fn generate(seed: u64, tier: &str, property: &str) -> RegScenario {
    let rng = Rng::new(seed);
    let max_chain = if tier == "thorough" { 16 } else { 8 };
    let n_chains = rng.range(1, 2);
    let pool: Vec<String> = ["a", "b", "c", "d", "e", "f"].iter().take(rng.range(1, 6)).map(|s| s.to_string()).collect();
    let mut g = IGen { rng: &rng, marker: 0, max_depth: rng.range(1, 3) };
    // (name, extends, body)
    let mut tpls: Vec<(String, Option<String>, Vec<N>)> = Vec::new();
    for c in 0..n_chains {
        let len = match rng.below(6) {
            0 => 1,
            1 | 2 => rng.range(2, 3),
            3 | 4 => rng.range(3, 5),
            _ => rng.range(4, max_chain),
        };
        // names that exist in the chain so far (any depth) — what a child may override at top level
        let mut chain_names: Vec<String> = Vec::new();
        let mut prev: Option<String> = None;
        for l in 0..len {
            let name = format!("c{}l{}", c, l);
            let mut used: Vec<String> = Vec::new();
            let body = if l == 0 {
                let mut b = vec![g.text()];
                b.extend(g.nodes(0, &mut used, &pool, false, (0, 1), true));
                b.push(g.text());
                b
            } else {
                // child: top-level blocks must already exist in some ancestor; stray text between
                let mut b = Vec::new();
                if rng.chance(1, 3) {
                    b.push(g.text());
                }
                let mut over: Vec<String> = chain_names.iter().filter(|_| rng.chance(1, 2)).cloned().collect();
                rng.shuffle(&mut over);
                for name in &over {
                    used.push(name.clone());
                }
                for name in over {
                    // super() mostly where an ancestor defines the block (always true at top level)
                    let ch = g.nodes(1, &mut used, &pool, true, (2, 3), true);
                    b.push(N::Block(name, ch));
                    if rng.chance(1, 4) {
                        b.push(g.text());
                    }
                }
                b
            };
            let mut defs = BTreeMap::new();
            collect_defs(&body, &mut defs);
            for k in defs.keys() {
                if !chain_names.contains(k) {
                    chain_names.push(k.clone());
                }
            }
            tpls.push((name.clone(), prev.clone(), body));
            prev = Some(name);
        }
    }
    // prefix mode: some templates live under a fallback prefix while every reference keeps the
    // short name; later, twins take over short names (exact name, or the other prefix) with other
    // block tables — `render`, `render_block` and `extends` must all follow "exact first, then
    // the prefixes in order"
    let prefixes: Vec<String> = if rng.chance(1, 4) {
        if rng.chance(1, 2) { vec!["p/".to_string()] } else { vec!["p/".to_string(), "q/".to_string()] }
    } else {
        vec![]
    };
    let mut reg_name: BTreeMap<String, String> = BTreeMap::new();
    for t in tpls.iter() {
        let rn = if !prefixes.is_empty() && rng.chance(1, 2) { format!("{}{}", rng.pick(&prefixes), t.0) } else { t.0.clone() };
        reg_name.insert(t.0.clone(), rn);
    }
    let items: Vec<(String, String)> = tpls.iter().map(|(n, e, b)| (reg_name[n].clone(), render_tpl(e.as_deref(), b))).collect();

    // ---- history kinds (i)-(iv)
    let mut ops = Vec::new();
    let mut notes = Vec::new();
    let hist = rng.below(4);
    match hist {
        0 => {
            let mut it = items.clone();
            rng.shuffle(&mut it);
            ops.push(Op::AddBatch { items: it });
            notes.push(OpNote::default());
        }
        1 => {
            for it in &items {
                ops.push(Op::AddRaw { name: it.0.clone(), source: it.1.clone() });
                notes.push(OpNote::default());
            }
        }
        2 => {
            // random order one by one; MissingParent failures are retried in later rounds
            let mut it = items.clone();
            rng.shuffle(&mut it);
            let rounds = if it.len() > 6 { 2 } else { it.len() };
            for r in 0..rounds {
                for x in &it {
                    ops.push(Op::AddRaw { name: x.0.clone(), source: x.1.clone() });
                    notes.push(OpNote { invalid: if r == 0 { Some("parent-not-yet-registered".into()) } else { None }, replaces_dependency: r > 0 });
                }
            }
            ops.push(Op::AddBatch { items: it });
            notes.push(OpNote { invalid: None, replaces_dependency: true });
        }
        _ => {
            let mut it = items.clone();
            rng.shuffle(&mut it);
            let mut i = 0;
            while i < it.len() {
                let k = rng.range(1, 3).min(it.len() - i);
                ops.push(Op::AddBatch { items: it[i..i + k].to_vec() });
                notes.push(OpNote { invalid: Some("parent-maybe-not-yet-registered".into()), replaces_dependency: false });
                i += k;
            }
            ops.push(Op::AddBatch { items: it });
            notes.push(OpNote { invalid: None, replaces_dependency: true });
        }
    }
    // (iv) replace a mid-chain template afterwards: override added/removed, super() added/removed
    let n_repl = rng.below(3);
    for _ in 0..n_repl {
        let x = rng.below(tpls.len());
        let (name, ext, body) = tpls[x].clone();
        let mut nb = body.clone();
        mutate(&mut nb, &rng, &mut g, ext.is_some());
        let src = render_tpl(ext.as_deref(), &nb);
        ops.push(Op::AddRaw { name: reg_name[&name].clone(), source: src });
        notes.push(OpNote { invalid: Some("replacement-may-orphan-a-child-block".into()), replaces_dependency: true });
        if rng.chance(1, 2) {
            tpls[x].2 = nb;
        }
    }
    // twins (prefix mode): a root-like template with its own block table takes over the short
    // name of a prefixed template, as an exact name or under the other prefix
    if !prefixes.is_empty() {
        let prefixed: Vec<String> = reg_name.iter().filter(|(k, v)| k != v).map(|(k, _)| k.clone()).collect();
        for _ in 0..rng.below(3) {
            if prefixed.is_empty() {
                break;
            }
            let short = rng.pick(&prefixed);
            let full = reg_name[&short].clone();
            let twin_name = if prefixes.len() > 1 && rng.chance(1, 2) {
                let other = prefixes.iter().find(|p| !full.starts_with(p.as_str())).unwrap();
                format!("{}{}", other, short)
            } else {
                short.clone()
            };
            let mut used: Vec<String> = Vec::new();
            let mut body = vec![g.text()];
            body.extend(g.nodes(0, &mut used, &pool, false, (0, 1), rng.chance(2, 3)));
            ops.push(Op::AddRaw { name: twin_name, source: render_tpl(None, &body) });
            notes.push(OpNote { invalid: Some("twin-with-another-block-table".into()), replaces_dependency: true });
        }
    }

    let mut names: Vec<String> = tpls.iter().map(|t| reg_name[&t.0].clone()).collect();
    for t in tpls.iter() {
        if !names.contains(&t.0) {
            names.push(t.0.clone());
        }
    }
    RegScenario {
        family: "inherit".into(),
        property: property.to_string(),
        config: Config { autoescape: None, prefixes, delims: Default::default(), global: SCtx::default(), custom: false },
        hash_base: rng.next_u64(),
        contexts: vec![SCtx::default()],
        probe: Probe { names, blocks: pool.clone(), comps: vec![], oneoffs: vec![] },
        ops,
        notes,
        fresh_seed: rng.next_u64(),
        crash_shape: String::new(),
        graph_model: false,
        inherit_model: true,
        step_budget: 2_000_000,
        render_accepted: true,
        render_f2_states: false,
    }
}

fn mutate(body: &mut Vec<N>, rng: &Rng, g: &mut IGen, is_child: bool) {
    match rng.below(4) {
        0 => {
            // remove one top-level block (a child of this template may lose its ancestor def)
            let idx: Vec<usize> = body.iter().enumerate().filter(|(_, n)| matches!(n, N::Block(..))).map(|(i, _)| i).collect();
            if !idx.is_empty() {
                body.remove(rng.pick(&idx));
            }
        }
        1 => {
            // toggle super() in the first block
            for n in body.iter_mut() {
                if let N::Block(_, ch) = n {
                    if let Some(p) = ch.iter().position(|c| *c == N::Super) {
                        ch.remove(p);
                    } else {
                        ch.push(N::Super);
                    }
                    break;
                }
            }
        }
        2 => {
            // wrap the first block in a filter section
            if let Some(p) = body.iter().position(|n| matches!(n, N::Block(..))) {
                let b = body.remove(p);
                body.insert(p, N::Filter(vec![b]));
            }
        }
        _ => {
            // change text only
            if !is_child {
                body.push(g.text());
            } else {
                for n in body.iter_mut() {
                    if let N::Block(_, ch) = n {
                        ch.push(g.text());
                        break;
                    }
                }
            }
        }
    }
}

pub fn shape_hash(m: &Model) -> Option<(u64, bool)> {
    let im = InheritModel::from_model(m)?;
    let mut f = Fnv::new();
    let mut nontrivial = false;
    fn shape(ns: &[N], f: &mut Fnv) {
        for n in ns {
            match n {
                N::Text(_) => f.u64(1),
                N::Block(b, ch) => {
                    f.u64(2);
                    f.str(b);
                    shape(ch, f);
                    f.u64(3);
                }
                N::Super => f.u64(4),
                N::Filter(ch) => {
                    f.u64(5);
                    shape(ch, f);
                    f.u64(6);
                }
                N::Capture(_, ch) => {
                    f.u64(7);
                    shape(ch, f);
                    f.u64(8);
                }
            }
        }
    }
    for (name, t) in &im.tpls {
        let depth = im.chain(name).map(|c| c.len()).unwrap_or(0);
        f.u64(depth as u64);
        shape(&t.body, &mut f);
        if depth >= 2 {
            let mut d = BTreeMap::new();
            collect_defs(&t.body, &mut d);
            if !d.is_empty() {
                nontrivial = true;
            }
        }
    }
    Some((f.get(), nontrivial))
}
