//! One integer decides everything: splitmix64 seeding + xoshiro256** stream.
//! No call in this file reads a clock or any other source of entropy.

#[inline]
pub fn splitmix64(x: u64) -> u64 {
    let x = x.wrapping_add(0x9E37_79B9_7F4A_7C15);
    let mut z = x;
    z = (z ^ (z >> 30)).wrapping_mul(0xBF58_476D_1CE4_E5B9);
    z = (z ^ (z >> 27)).wrapping_mul(0x94D0_49BB_1331_11EB);
    z ^ (z >> 31)
}

pub fn fnv1a(bytes: &[u8]) -> u64 {
    let mut h: u64 = 0xcbf2_9ce4_8422_2325;
    for b in bytes {
        h ^= *b as u64;
        h = h.wrapping_mul(0x0000_0100_0000_01b3);
    }
    h
}

/// Incremental FNV-1a used for event-log fingerprints.
#[derive(Clone, Copy, Debug)]
pub struct Fnv(pub u64);
impl Default for Fnv {
    fn default() -> Self {
        Fnv(0xcbf2_9ce4_8422_2325)
    }
}
impl Fnv {
    pub fn new() -> Self {
        Self::default()
    }
    #[inline]
    pub fn bytes(&mut self, bytes: &[u8]) {
        for b in bytes {
            self.0 ^= *b as u64;
            self.0 = self.0.wrapping_mul(0x0000_0100_0000_01b3);
        }
        // length terminator so that ("ab","c") != ("a","bc")
        self.u64(bytes.len() as u64);
    }
    #[inline]
    pub fn str(&mut self, s: &str) {
        self.bytes(s.as_bytes())
    }
    #[inline]
    pub fn u64(&mut self, v: u64) {
        for b in v.to_le_bytes() {
            self.0 ^= b as u64;
            self.0 = self.0.wrapping_mul(0x0000_0100_0000_01b3);
        }
    }
    pub fn get(&self) -> u64 {
        self.0
    }
}

pub fn run_seed(master: u64, check: &str, index: u64) -> u64 {
    splitmix64(master ^ fnv1a(check.as_bytes()) ^ splitmix64(index.wrapping_add(0x51ED_270B)))
}

/// Interior mutability (a `Cell`) so that drawing needs only `&self`: generator code can write
/// `self.method(self.rng.below(3))` without borrow gymnastics. Still a plain deterministic stream.
#[derive(Clone, Debug)]
pub struct Rng {
    s: std::cell::Cell<[u64; 4]>,
}

impl Rng {
    pub fn new(seed: u64) -> Rng {
        let mut x = seed;
        let mut s = [0u64; 4];
        for slot in s.iter_mut() {
            x = splitmix64(x);
            *slot = x;
        }
        if s == [0, 0, 0, 0] {
            s[0] = 1;
        }
        Rng { s: std::cell::Cell::new(s) }
    }

    /// A child stream that is a pure function of this stream's next value and `tag`.
    pub fn fork(&self, tag: u64) -> Rng {
        Rng::new(self.next_u64() ^ splitmix64(tag))
    }

    #[inline]
    pub fn next_u64(&self) -> u64 {
        let mut s = self.s.get();
        let result = s[1].wrapping_mul(5).rotate_left(7).wrapping_mul(9);
        let t = s[1] << 17;
        s[2] ^= s[0];
        s[3] ^= s[1];
        s[1] ^= s[2];
        s[0] ^= s[3];
        s[2] ^= t;
        s[3] = s[3].rotate_left(45);
        self.s.set(s);
        result
    }

    /// Uniform in 0..n (n > 0).
    #[inline]
    pub fn below(&self, n: usize) -> usize {
        debug_assert!(n > 0);
        ((self.next_u64() >> 11) % (n as u64)) as usize
    }

    /// Uniform in lo..=hi.
    #[inline]
    pub fn range(&self, lo: usize, hi: usize) -> usize {
        lo + self.below(hi - lo + 1)
    }

    #[inline]
    pub fn irange(&self, lo: i64, hi: i64) -> i64 {
        lo + self.below((hi - lo + 1) as usize) as i64
    }

    /// True with probability num/den.
    #[inline]
    pub fn chance(&self, num: usize, den: usize) -> bool {
        self.below(den) < num
    }

    pub fn pick<T: Clone>(&self, xs: &[T]) -> T {
        xs[self.below(xs.len())].clone()
    }

    pub fn shuffle<T>(&self, xs: &mut [T]) {
        for i in (1..xs.len()).rev() {
            let j = self.below(i + 1);
            xs.swap(i, j);
        }
    }

    /// Weighted choice: returns the index of the chosen weight.
    pub fn weighted(&self, weights: &[usize]) -> usize {
        let total: usize = weights.iter().sum();
        debug_assert!(total > 0);
        let mut x = self.below(total);
        for (i, w) in weights.iter().enumerate() {
            if x < *w {
                return i;
            }
            x -= *w;
        }
        weights.len() - 1
    }
}
