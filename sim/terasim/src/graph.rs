//! regsim family *graph* (C11): skeleton templates carrying extends/include edges, a reference
//! graph model deciding acceptance, the effective-include analysis that classifies the listed F2
//! shape, and the history generator (DESIGN.md §5.3).
use crate::common::{Outcome, Stats, Violation};
use crate::engine::{kind_tag, CompProbe, Config, Probe};
use crate::regsim::{Model, Op, OpNote, RegScenario};
use crate::rng::{Fnv, Rng};
use crate::sval::SCtx;
use std::collections::{BTreeMap, BTreeSet};
use tera::ErrorKind;

#[derive(Clone, Copy, Debug, PartialEq, Eq, PartialOrd, Ord)]
pub enum Place {
    Body,
    Block,
    Component,
}

#[derive(Clone, Debug)]
pub struct GSpec {
    pub name: String,
    pub extends: Option<String>,
    pub incs: Vec<(String, Place)>,
    pub super_call: bool,
}

fn comp_name(tpl: &str) -> String {
    format!("K_{}", tpl.replace(['/', '.'], "_"))
}

/// An include statement, sometimes nested in a construct that does not change what is rendered:
/// `if true`, a one-element `for`, a captured `set` printed right away. All of them must still be
/// collected as include edges. The choice is a pure function of (template, target).
fn include_stmt(tpl: &str, target: &str) -> String {
    let inc = format!("{{% include \"{}\" %}}", target);
    match crate::rng::fnv1a(format!("{}>{}", tpl, target).as_bytes()) % 10 {
        0 => format!("{{% if true %}}{}{{% endif %}}", inc),
        1 => format!("{{% for zq in [1] %}}{}{{% endfor %}}", inc),
        2 => format!("{{% set zs %}}{}{{% endset %}}{{{{ zs | safe }}}}", inc),
        // the less common bodies: for-else, elif / else branches, a filter section
        3 => format!("{{% for zq in [] %}}{{% else %}}{}{{% endfor %}}", inc),
        4 => format!("{{% if false %}}{{% elif true %}}{}{{% endif %}}", inc),
        5 => format!("{{% if false %}}{{% else %}}{}{{% endif %}}", inc),
        6 => format!("{{% filter safe %}}{}{{% endfilter %}}", inc),
        _ => inc,
    }
}

pub fn render_src(s: &GSpec) -> String {
    let mut out = String::new();
    if let Some(e) = &s.extends {
        out.push_str(&format!("{{% extends \"{}\" %}}", e));
    }
    let comp_incs: Vec<&(String, Place)> = s.incs.iter().filter(|(_, p)| *p == Place::Component).collect();
    let k = comp_name(&s.name);
    if !comp_incs.is_empty() {
        out.push_str(&format!("{{% component {}() %}}({}", k, k));
        for (t, _) in &comp_incs {
            out.push_str(&include_stmt(&s.name, t));
        }
        out.push_str("){% endcomponent %}");
    }
    out.push_str(&format!("<{}|", s.name));
    for (t, p) in &s.incs {
        if *p == Place::Body {
            out.push_str(&include_stmt(&s.name, t));
        }
    }
    out.push_str(&format!("{{% block b %}}[{}.b", s.name));
    for (t, p) in &s.incs {
        if *p == Place::Block {
            out.push_str(&include_stmt(&s.name, t));
        }
    }
    if !comp_incs.is_empty() {
        out.push_str(&format!("{{{{ <{}/> }}}}", k));
    }
    if s.super_call {
        out.push_str("{{ super() }}");
    }
    out.push_str("]{% endblock %}>");
    // inert text (a pure function of the name): tags inside a comment are not tags — an
    // `include` / `extends` of the template itself that must create no edge
    if crate::rng::fnv1a(s.name.as_bytes()) % 3 == 0 {
        out.push_str(&format!("{{# {{% include \"{}\" %}}{{% extends \"{}\" %}} #}}", s.name, s.name));
    }
    out
}

/// The source without its comments (what the reference model reads edges from).
fn without_comments(src: &str) -> String {
    let mut out = String::with_capacity(src.len());
    let mut rest = src;
    while let Some(a) = rest.find("{#") {
        out.push_str(&rest[..a]);
        match rest[a..].find("#}") {
            Some(b) => rest = &rest[a + b + 2..],
            None => {
                rest = "";
                break;
            }
        }
    }
    out.push_str(rest);
    out
}

// ------------------------------------------------------------------------------------------------
// reference graph model (reads edges back from literal sources; independent of tera's parser)
// ------------------------------------------------------------------------------------------------

#[derive(Clone, Debug, Default)]
pub struct Node {
    pub extends: Option<String>,
    /// (target, placement)
    pub incs: Vec<(String, Place)>,
    pub super_call: bool,
}

fn quoted_after(src: &str, from: usize) -> Option<(String, usize)> {
    let a = src[from..].find('"')? + from + 1;
    let b = src[a..].find('"')? + a;
    Some((src[a..b].to_string(), b + 1))
}

pub fn parse_node(src: &str) -> Node {
    let stripped = without_comments(src);
    let src = stripped.as_str();
    let mut n = Node::default();
    if let Some(p) = src.find("{% extends ") {
        if let Some((t, _)) = quoted_after(src, p) {
            n.extends = Some(t);
        }
    }
    n.super_call = src.contains("super()");
    let comp_range = match (src.find("{% component "), src.find("{% endcomponent")) {
        (Some(a), Some(b)) => Some((a, b)),
        _ => None,
    };
    let block_range = match (src.find("{% block b %}"), src.find("{% endblock %}")) {
        (Some(a), Some(b)) => Some((a, b)),
        _ => None,
    };
    let mut pos = 0;
    while let Some(p) = src[pos..].find("{% include ") {
        let at = pos + p;
        if let Some((t, next)) = quoted_after(src, at) {
            let place = if comp_range.map(|(a, b)| at > a && at < b).unwrap_or(false) {
                Place::Component
            } else if block_range.map(|(a, b)| at > a && at < b).unwrap_or(false) {
                Place::Block
            } else {
                Place::Body
            };
            n.incs.push((t, place));
            pos = next;
        } else {
            break;
        }
    }
    n
}

pub struct GraphModel {
    pub nodes: BTreeMap<String, Node>,
    pub prefixes: Vec<String>,
}

#[derive(Clone, Copy, Debug, PartialEq, Eq, PartialOrd, Ord)]
pub enum Cond {
    MissingParent,
    CircularExtend,
    CircularInclude,
    UnknownInclude,
}

impl GraphModel {
    pub fn from_model(m: &Model) -> GraphModel {
        GraphModel { nodes: m.tpls.iter().map(|(k, e)| (k.clone(), parse_node(&e.source))).collect(), prefixes: m.config.prefixes.clone() }
    }

    pub fn resolve(&self, name: &str) -> Option<String> {
        if self.nodes.contains_key(name) {
            return Some(name.to_string());
        }
        for p in &self.prefixes {
            let full = format!("{}{}", p, name);
            if self.nodes.contains_key(&full) {
                return Some(full);
            }
        }
        None
    }

    /// The set of violated acceptance conditions.
    pub fn verdict(&self) -> BTreeSet<Cond> {
        let mut v = BTreeSet::new();
        // extends relation
        for (start, _) in &self.nodes {
            let mut seen: BTreeSet<String> = BTreeSet::new();
            seen.insert(start.clone());
            let mut cur = start.clone();
            loop {
                let Some(e) = self.nodes[&cur].extends.clone() else { break };
                match self.resolve(&e) {
                    None => {
                        v.insert(Cond::MissingParent);
                        break;
                    }
                    Some(r) => {
                        if !seen.insert(r.clone()) {
                            v.insert(Cond::CircularExtend);
                            break;
                        }
                        cur = r;
                    }
                }
            }
        }
        // include relation
        let mut edges: BTreeMap<String, BTreeSet<String>> = BTreeMap::new();
        for (n, node) in &self.nodes {
            for (t, _) in &node.incs {
                match self.resolve(t) {
                    None => {
                        v.insert(Cond::UnknownInclude);
                    }
                    Some(r) => {
                        edges.entry(n.clone()).or_default().insert(r);
                    }
                }
            }
        }
        if has_cycle(&self.nodes.keys().cloned().collect::<Vec<_>>(), &edges) {
            v.insert(Cond::CircularInclude);
        }
        v
    }

    fn ancestors(&self, n: &str) -> Vec<String> {
        let mut out = Vec::new();
        let mut cur = n.to_string();
        let mut guard = 0;
        while let Some(e) = self.nodes.get(&cur).and_then(|x| x.extends.clone()) {
            guard += 1;
            if guard > 64 {
                break;
            }
            match self.resolve(&e) {
                Some(r) => {
                    if out.contains(&r) || r == n {
                        break;
                    }
                    out.push(r.clone());
                    cur = r;
                }
                None => break,
            }
        }
        out
    }

    /// Effective include edges: what interpreting X's own chunk (as an include target) can include —
    /// X's own includes, plus includes placed in block `b` of the ancestors that X's block reaches
    /// through consecutive `super()` calls. Edges through a component body are kept apart: a cycle
    /// through them is stopped by the component depth limit.
    pub fn effective_edges(&self, through_components: bool) -> BTreeMap<String, BTreeSet<String>> {
        let mut edges: BTreeMap<String, BTreeSet<String>> = BTreeMap::new();
        for (n, node) in &self.nodes {
            let mut add = |incs: &Vec<(String, Place)>, only_block: bool, edges: &mut BTreeMap<String, BTreeSet<String>>| {
                for (t, p) in incs {
                    if only_block && *p == Place::Body {
                        continue;
                    }
                    if !through_components && *p == Place::Component {
                        continue;
                    }
                    if let Some(r) = self.resolve(t) {
                        edges.entry(n.clone()).or_default().insert(r);
                    }
                }
            };
            add(&node.incs, false, &mut edges);
            // (Rendering X at top level also runs the root ancestor's body, but nothing can
            // *include* that entry point again: only the own-chunk nodes can form a cycle.)
            let anc = self.ancestors(n);
            let mut calls_super = node.super_call;
            for a in &anc {
                if !calls_super {
                    break;
                }
                let an = &self.nodes[a];
                // component-placed includes of the ancestor are called from inside its block
                add(&an.incs, true, &mut edges);
                calls_super = an.super_call;
            }
        }
        edges
    }

    /// None: every render is finite. Some(shape): the known crash shape this state has —
    /// a cycle of own-chunk interpretations without any component call in it recurses without
    /// bound (F2); one that passes through a component call is cut by the component depth limit
    /// after 20 rounds, which a deep super() chain per round can still turn into a stack
    /// overflow (F5).
    pub fn crash_shape(&self) -> Option<&'static str> {
        let names: Vec<String> = self.nodes.keys().cloned().collect();
        if has_cycle(&names, &self.effective_edges(false)) {
            Some("include-inside-ancestor-block-reentered-through-super")
        } else if has_cycle(&names, &self.effective_edges(true)) {
            // Cut by the component depth limit after 20 rounds. Each round costs roughly
            // (ancestors + 2) interpreter frames per template on the cycle; measured in this
            // build: a single template with 7 ancestors still ends in the limit's error, 8
            // overflow 2 MiB. Cheap rounds are rendered in-process (they must end in the error —
            // a change that lets the limit be bypassed kills the worker and is reported);
            // expensive ones are the known shape F5.
            if self.component_cycle_round_cost() <= 4 {
                None
            } else {
                Some("include-cycle-through-component-call")
            }
        } else {
            None
        }
    }

    /// max over cyclic strongly connected components (effective graph incl. component edges) of
    /// the sum of (ancestors + 2) of their nodes
    fn component_cycle_round_cost(&self) -> usize {
        let edges = self.effective_edges(true);
        let names: Vec<&String> = self.nodes.keys().collect();
        let reach = |from: &String| -> BTreeSet<String> {
            let mut seen: BTreeSet<String> = BTreeSet::new();
            let mut todo: Vec<String> = edges.get(from).map(|s| s.iter().cloned().collect()).unwrap_or_default();
            while let Some(n) = todo.pop() {
                if seen.insert(n.clone()) {
                    if let Some(es) = edges.get(&n) {
                        todo.extend(es.iter().cloned());
                    }
                }
            }
            seen
        };
        let reaches: BTreeMap<&String, BTreeSet<String>> = names.iter().map(|n| (*n, reach(n))).collect();
        let mut best = 0;
        for n in &names {
            if !reaches[*n].contains(*n) {
                continue;
            }
            let scc: Vec<&String> = names.iter().filter(|m| reaches[*n].contains(**m) && reaches[**m].contains(*n)).cloned().collect();
            let cost: usize = scc.iter().map(|m| self.ancestors(m).len() + 2).sum();
            // a member that re-enters the cycle through more than one include statement makes
            // the 20 rounds a tree (2^20 renders): finite, but not something to run in a worker
            for m in &scc {
                let mut entries = 0usize;
                let mut count = |incs: &Vec<(String, Place)>, only_block: bool| {
                    for (t, p) in incs {
                        if only_block && *p == Place::Body {
                            continue;
                        }
                        if let Some(r) = self.resolve(t) {
                            if scc.iter().any(|x| **x == r) {
                                entries += 1;
                            }
                        }
                    }
                };
                count(&self.nodes[*m].incs, false);
                let mut calls_super = self.nodes[*m].super_call;
                for a in self.ancestors(m) {
                    if !calls_super {
                        break;
                    }
                    count(&self.nodes[&a].incs, true);
                    calls_super = self.nodes[&a].super_call;
                }
                if entries > 1 {
                    return usize::MAX;
                }
            }
            best = best.max(cost);
        }
        best
    }

    // ---- reference renderer of the skeleton (which template an include / extends reaches is
    // part of the property: exact names first, then prefixes in order)

    fn block_text(&self, owner: &str, depth: usize, comp_depth: usize) -> Result<String, String> {
        // lineage of `b` from owner's perspective: owner's definition, then one ancestor further
        // for every super() call (every skeleton template defines `b`)
        let mut chain: Vec<String> = vec![owner.to_string()];
        chain.extend(self.ancestors(owner));
        self.level_text(&chain, 0, depth, comp_depth)
    }

    /// Text of the definition at `chain[idx]`, in the engine's evaluation order: block-placed
    /// includes, the component call, then super().
    fn level_text(&self, chain: &[String], idx: usize, depth: usize, comp_depth: usize) -> Result<String, String> {
        if depth > 300 {
            return Err("unbounded".to_string());
        }
        let t = &chain[idx];
        let node = &self.nodes[t];
        let mut out = format!("[{}.b", t);
        for (target, p) in &node.incs {
            if *p == Place::Block {
                out.push_str(&self.include_text(target, depth + 1, comp_depth)?);
            }
        }
        if node.incs.iter().any(|(_, p)| *p == Place::Component) {
            if comp_depth + 1 > 20 {
                return Err("Maximum render recursion depth for components exceeded.".to_string());
            }
            out.push_str(&format!("({}", comp_name(t)));
            for (target, p) in &node.incs {
                if *p == Place::Component {
                    out.push_str(&self.include_text(target, depth + 1, comp_depth + 1)?);
                }
            }
            out.push(')');
        }
        if node.super_call {
            if idx + 1 >= chain.len() {
                return Err("Tried to use super() in the top level block".to_string());
            }
            out.push_str(&self.level_text(chain, idx + 1, depth + 1, comp_depth)?);
        }
        out.push(']');
        Ok(out)
    }

    fn include_text(&self, target: &str, depth: usize, comp_depth: usize) -> Result<String, String> {
        let r = self.resolve(target).ok_or_else(|| format!("unresolved include {}", target))?;
        self.chunk_text(&r, &r, depth, comp_depth)
    }

    /// `body_of`'s chunk interpreted with `owner`'s block lineage
    fn chunk_text(&self, body_of: &str, owner: &str, depth: usize, comp_depth: usize) -> Result<String, String> {
        if depth > 300 {
            return Err("unbounded".to_string());
        }
        let node = &self.nodes[body_of];
        let mut out = format!("<{}|", body_of);
        for (target, p) in &node.incs {
            if *p == Place::Body {
                out.push_str(&self.include_text(target, depth + 1, comp_depth)?);
            }
        }
        out.push_str(&self.block_text(owner, depth + 1, comp_depth)?);
        out.push('>');
        Ok(out)
    }

    /// What `render(name)` must produce: the root ancestor's body with `name`'s block lineage.
    pub fn render(&self, name: &str) -> Result<String, String> {
        let anc = self.ancestors(name);
        let root = anc.last().cloned().unwrap_or_else(|| name.to_string());
        self.chunk_text(&root, name, 0, 0)
    }

    pub fn render_block(&self, name: &str) -> Result<String, String> {
        self.block_text(name, 0, 0)
    }

    pub fn has_component_cycle(&self) -> bool {
        let names: Vec<String> = self.nodes.keys().cloned().collect();
        !has_cycle(&names, &self.effective_edges(false)) && has_cycle(&names, &self.effective_edges(true))
    }

    pub fn max_depth(&self) -> usize {
        // longest chain in either relation (for the non-trivial rule); graph must be acyclic
        let mut best = 0;
        for n in self.nodes.keys() {
            best = best.max(self.ancestors(n).len());
        }
        let mut memo: BTreeMap<String, usize> = BTreeMap::new();
        let mut edges: BTreeMap<String, BTreeSet<String>> = BTreeMap::new();
        for (n, node) in &self.nodes {
            for (t, _) in &node.incs {
                if let Some(r) = self.resolve(t) {
                    edges.entry(n.clone()).or_default().insert(r);
                }
            }
        }
        fn depth(n: &str, edges: &BTreeMap<String, BTreeSet<String>>, memo: &mut BTreeMap<String, usize>, guard: usize) -> usize {
            if guard > 64 {
                return 0;
            }
            if let Some(d) = memo.get(n) {
                return *d;
            }
            let mut d = 0;
            if let Some(es) = edges.get(n) {
                for e in es {
                    d = d.max(1 + depth(e, edges, memo, guard + 1));
                }
            }
            memo.insert(n.to_string(), d);
            d
        }
        for n in self.nodes.keys() {
            best = best.max(depth(n, &edges, &mut memo, 0));
        }
        best
    }
}

fn has_cycle(names: &[String], edges: &BTreeMap<String, BTreeSet<String>>) -> bool {
    // iterative three-colour DFS
    let mut colour: BTreeMap<&str, u8> = BTreeMap::new();
    for start in names {
        if colour.get(start.as_str()).copied().unwrap_or(0) != 0 {
            continue;
        }
        let mut stack: Vec<(&str, Vec<&String>)> = vec![(start.as_str(), edges.get(start).map(|s| s.iter().collect()).unwrap_or_default())];
        colour.insert(start.as_str(), 1);
        while let Some((node, rest)) = stack.last_mut() {
            if let Some(next) = rest.pop() {
                match colour.get(next.as_str()).copied().unwrap_or(0) {
                    1 => return true,
                    0 => {
                        colour.insert(next.as_str(), 1);
                        let succ = edges.get(next).map(|s| s.iter().collect()).unwrap_or_default();
                        stack.push((next.as_str(), succ));
                    }
                    _ => {}
                }
            } else {
                colour.insert(node, 2);
                stack.pop();
            }
        }
    }
    false
}

/// Acceptance refinement: no violated condition ⇒ Ok; else Err whose kind belongs to one of the
/// violated conditions (which one is reported first is not constrained).
pub fn check_acceptance(cand: &Model, ok: bool, err: Option<&tera::Error>, i: usize, stats: &mut Stats, out: &mut Outcome) {
    let g = GraphModel::from_model(cand);
    let v = g.verdict();
    stats.inc("evaluations_graph_verdicts");
    for c in &v {
        stats.inc(&format!("fault_configured_graph_{:?}", c));
    }
    if v.is_empty() {
        if !ok {
            let e = err.unwrap();
            out.violations.push(Violation::new(
                "C11",
                "valid-graph-refused",
                format!("op {}: the model finds every extends/include target and no cycle, but the engine refused: {}", i, crate::engine::trunc(&format!("{}", e))),
            ));
        }
        return;
    }
    if ok {
        out.violations.push(Violation::new("C11", "invalid-graph-accepted", format!("op {}: accepted although the model finds {:?}; set = {:?}", i, v, cand.tpls.keys().collect::<Vec<_>>())));
        return;
    }
    let e = err.unwrap();
    let matches_some = v.iter().any(|c| match (c, e.kind()) {
        (Cond::MissingParent, ErrorKind::MissingParent { .. }) => true,
        (Cond::CircularExtend, ErrorKind::CircularExtend { .. }) => true,
        (Cond::CircularInclude, ErrorKind::CircularInclude { .. }) => true,
        (Cond::UnknownInclude, ErrorKind::Msg(m)) => m.contains("Unknown template"),
        _ => false,
    });
    for c in &v {
        stats.inc(&format!("fault_fired_graph_{:?}", c));
    }
    if !matches_some {
        out.violations.push(Violation::new("C11", "wrong-error-for-invalid-graph", format!("op {}: model finds {:?} but the error is {}: {}", i, v, kind_tag(e.kind()), crate::engine::trunc(&format!("{}", e)))));
    }
}

/// Output refinement: every template of an accepted, renderable state renders to exactly what the
/// skeleton's reference renderer says (or fails where it fails).
pub fn check_outputs(model: &Model, t: &tera::Tera, i: usize, stats: &mut Stats, out: &mut Outcome) {
    let g = GraphModel::from_model(model);
    let ctx = tera::Context::new();
    for name in model.tpls.keys() {
        stats.inc("evaluations_graph_renders");
        let want = g.render(name);
        let got = match crate::common::catch(|| t.render(name, &ctx)) {
            Ok(r) => r,
            Err(p) => {
                out.violations.push(Violation::new("C07", "panic-in-render", format!("{}: {}", name, p)));
                continue;
            }
        };
        match (&want, &got) {
            (Ok(w), Ok(g2)) => {
                if w != g2 {
                    out.violations.push(Violation::new(
                        "C11",
                        "render-differs-from-graph-model",
                        format!("after op {}: render({}) = {:?}, the reference renderer (exact names first, then prefixes in order) gives {:?}", i, name, crate::engine::trunc(g2), crate::engine::trunc(w)),
                    ));
                }
            }
            (Err(why), Err(e)) => {
                // same class of failure, not just "some error"
                let m = format!("{}", e);
                let class_ok = if why.contains("super()") { m.contains("super()") } else if why.contains("Maximum render recursion") { m.contains("Maximum render recursion") } else { true };
                if !class_ok {
                    out.violations.push(Violation::new("C11", "render-fails-differently-from-graph-model", format!("after op {}: render({}) = Err({}), model: {}", i, name, crate::engine::trunc(&m), why)));
                }
            }
            (Ok(w), Err(e)) => out.violations.push(Violation::new("C11", "render-fails-where-graph-model-renders", format!("after op {}: render({}) = Err({}), model = {:?}", i, name, crate::engine::trunc(&format!("{}", e)), crate::engine::trunc(w)))),
            (Err(why), Ok(g2)) => out.violations.push(Violation::new("C11", "render-succeeds-where-graph-model-fails", format!("after op {}: render({}) = {:?}; model: {}", i, name, crate::engine::trunc(g2), why))),
        }
        if let (Ok(wb), Ok(gb)) = (g.render_block(name), crate::common::catch(|| t.render_block(name, "b", &ctx))) {
            if let Ok(gb) = gb {
                if want.is_ok() && wb != gb {
                    // (block text by name is C04's clause; which template an include reaches is C11's)
                    out.violations.push(Violation::new("C04", "render_block-differs-from-graph-model", format!("after op {}: render_block({}, b) = {:?}, model {:?}", i, name, crate::engine::trunc(&gb), crate::engine::trunc(&wb))));
                }
            }
        }
    }
}

// ------------------------------------------------------------------------------------------------
// generator
// ------------------------------------------------------------------------------------------------

fn node_name(i: usize, rng: &Rng, prefixes: &[String]) -> String {
    // now and then a name that merely ENDS WITH (or starts with) another node's name — `0/g2`,
    // `g2x` — without being related to it: names are compared by equality and nothing else
    if i > 0 && rng.chance(1, 8) {
        let j = rng.below(i);
        return if rng.chance(2, 3) { format!("0/g{}", j) } else { format!("g{}x", j) };
    }
    let base = format!("g{}", i);
    if !prefixes.is_empty() && rng.chance(1, 3) {
        format!("{}{}", rng.pick(prefixes), base)
    } else {
        base
    }
}

fn refer(name: &str, rng: &Rng, prefixes: &[String]) -> String {
    // refer to a prefixed template by its short name most of the time
    for p in prefixes {
        if let Some(short) = name.strip_prefix(p.as_str()) {
            if rng.chance(3, 4) {
                return short.to_string();
            }
        }
    }
    name.to_string()
}

fn place(rng: &Rng) -> Place {
    match rng.below(5) {
        0 | 1 => Place::Body,
        2 | 3 => Place::Block,
        _ => Place::Component,
    }
}

pub fn generate(seed: u64, tier: &str, property: &str) -> RegScenario {
    let rng = Rng::new(seed);
    let prefixes: Vec<String> = match rng.below(4) {
        0 => vec!["p1/".to_string()],
        1 => vec!["p1/".to_string(), "p2/".to_string()],
        _ => vec![],
    };
    let shape = rng.below(12);
    let deep = shape == 0 || shape == 1;
    let n = if deep { rng.range(8, if tier == "thorough" { 40 } else { 33 }) } else { rng.range(2, 8) };
    let mut specs: Vec<GSpec> = Vec::new();
    for i in 0..n {
        let mut nm = node_name(i, &rng, &prefixes);
        if specs.iter().any(|s: &GSpec| s.name == nm) {
            nm = format!("g{}", i);
        }
        specs.push(GSpec { name: nm, extends: None, incs: vec![], super_call: rng.chance(1, 2) });
    }
    let names: Vec<String> = specs.iter().map(|s| s.name.clone()).collect();
    match shape {
        0 => {
            // deep include chain g(n-1) -> ... -> g0
            for i in 1..n {
                let t = refer(&names[i - 1], &rng, &prefixes);
                specs[i].incs.push((t, place(&rng)));
            }
        }
        1 => {
            // deep extends chain
            for i in 1..n {
                specs[i].extends = Some(refer(&names[i - 1], &rng, &prefixes));
            }
            if rng.chance(1, 3) {
                // ... whose root calls a component that includes the leaf again: the include
                // cycle is cut by the component depth limit, after 20 rounds of n super() levels
                for s in specs.iter_mut() {
                    s.super_call = true;
                }
                let leaf = refer(&names[n - 1], &rng, &prefixes);
                specs[0].incs.push((leaf, Place::Component));
            }
        }
        _ => {
            // random DAG over both relations (edges point to lower indices)
            for i in 1..n {
                if rng.chance(2, 5) {
                    specs[i].extends = Some(refer(&names[rng.below(i)], &rng, &prefixes));
                }
                let k = rng.below(3);
                for _ in 0..k {
                    let t = refer(&names[rng.below(i)], &rng, &prefixes);
                    if !specs[i].incs.iter().any(|(x, _)| *x == t) {
                        specs[i].incs.push((t, place(&rng)));
                    }
                }
            }
        }
    }

    // `super()` with nothing above is a render-time error: keep it rare, or a deep chain hardly
    // ever renders to text (it masked seeded change C11f)
    for sp in specs.iter_mut() {
        if sp.extends.is_none() && sp.super_call && !rng.chance(1, 12) {
            sp.super_call = false;
        }
    }

    // ---- the history
    let mut ops: Vec<Op> = Vec::new();
    let mut notes: Vec<OpNote> = Vec::new();
    let valid_items: Vec<(String, String)> = specs.iter().map(|s| (s.name.clone(), render_src(s))).collect();
    // disk mode: the first k templates (edges point to lower indices, so the set is closed under
    // dependencies) live in files below tpl/ and are loaded by a glob; the rest is added by
    // hand. Files can then *vanish* or change under a reload — the only way a template ever
    // leaves a registry — which flips resolution (exact name -> prefix) and can dangle or close
    // cycles through templates that no call touched.
    let disk_mode = !deep && rng.chance(1, 4);
    let mut file_names: Vec<String> = Vec::new();
    let hexs = |t: &str| crate::sval::hex(t.as_bytes());
    let first = if disk_mode { 99 } else { rng.below(4) };
    match first {
        99 => {
            let k = rng.range(1, n);
            for it in valid_items.iter().take(k) {
                ops.push(Op::DiskWrite { path: format!("tpl/{}", it.0), hex: hexs(&it.1) });
                notes.push(OpNote::default());
                file_names.push(it.0.clone());
            }
            ops.push(Op::LoadGlob { pattern: "tpl/**/*".into(), faults: vec![] });
            notes.push(OpNote::default());
            if k < n {
                ops.push(Op::AddBatch { items: valid_items[k..].to_vec() });
                notes.push(OpNote::default());
            }
        }
        0 => {
            // one batch, random order
            let mut it = valid_items.clone();
            rng.shuffle(&mut it);
            ops.push(Op::AddBatch { items: it });
            notes.push(OpNote::default());
        }
        1 => {
            // one by one in dependency order
            for it in &valid_items {
                ops.push(Op::AddRaw { name: it.0.clone(), source: it.1.clone() });
                notes.push(OpNote::default());
            }
        }
        2 => {
            // one by one in random order, failures retried in later rounds
            let mut it = valid_items.clone();
            rng.shuffle(&mut it);
            for round in 0..3 {
                for x in &it {
                    ops.push(Op::AddRaw { name: x.0.clone(), source: x.1.clone() });
                    notes.push(OpNote { invalid: if round == 0 { Some("dependency-not-yet-registered".into()) } else { None }, replaces_dependency: round > 0 });
                }
                if n > 12 {
                    break;
                }
            }
            if n > 12 {
                // deep graphs: finish with one batch instead of n^2 retries
                ops.push(Op::AddBatch { items: it.clone() });
                notes.push(OpNote::default());
            }
        }
        _ => {
            // random groups
            let mut it = valid_items.clone();
            rng.shuffle(&mut it);
            let mut i = 0;
            while i < it.len() {
                let k = rng.range(1, 4).min(it.len() - i);
                ops.push(Op::AddBatch { items: it[i..i + k].to_vec() });
                notes.push(OpNote::default());
                i += k;
            }
            // whatever failed for missing dependencies: everything once more in one batch
            ops.push(Op::AddBatch { items: it.clone() });
            notes.push(OpNote { invalid: None, replaces_dependency: true });
        }
    }

    // ---- mutations: replacements that open or close cycles, dangle edges, flip resolution
    let n_mut = rng.range(1, 5);
    // sometimes the mutations happen on a clone (clone -> mutate -> publish): the original must
    // keep resolving and rendering exactly as it did when the clone was taken
    let clone_at = if rng.chance(1, 4) { Some(rng.below(n_mut)) } else { None };
    for mi in 0..n_mut {
        if clone_at == Some(mi) {
            ops.push(Op::CloneSwap);
            notes.push(OpNote::default());
        }
        if disk_mode && rng.chance(1, 2) {
            let prefixed: Vec<&String> = names.iter().filter(|nm| prefixes.iter().any(|p| nm.starts_with(p.as_str()))).collect();
            if !prefixed.is_empty() && rng.chance(1, 2) {
                // shadow, lean on the shadow, then let the shadow vanish: an exact-name twin of a
                // prefixed template arrives as a file; the prefixed template then includes its
                // own short name (legal: it reaches the twin); the twin's file is deleted and the
                // registry reloaded: the include would now reach the includer itself
                let full = rng.pick(&prefixed).clone();
                let short = prefixes.iter().find_map(|p| full.strip_prefix(p.as_str())).unwrap().to_string();
                let twin = GSpec { name: short.clone(), extends: None, incs: vec![], super_call: false };
                ops.push(Op::DiskWrite { path: format!("tpl/{}", short), hex: hexs(&render_src(&twin)) });
                notes.push(OpNote::default());
                ops.push(Op::FullReload { faults: vec![] });
                notes.push(OpNote { invalid: Some("exact-name-twin-file".into()), replaces_dependency: true });
                let xi = names.iter().position(|nm| *nm == full).unwrap();
                let mut sp = specs[xi].clone();
                sp.incs.push((short.clone(), place(&rng)));
                ops.push(Op::AddRaw { name: full.clone(), source: render_src(&sp) });
                notes.push(OpNote { invalid: Some("include-own-short-name".into()), replaces_dependency: true });
                ops.push(Op::DiskDelete { path: format!("tpl/{}", short) });
                notes.push(OpNote::default());
                ops.push(Op::FullReload { faults: vec![] });
                notes.push(OpNote { invalid: Some("file-vanishes".into()), replaces_dependency: true });
                if rng.chance(1, 2) {
                    file_names.push(short);
                }
            } else if !file_names.is_empty() {
                let f = rng.pick(&file_names).clone();
                ops.push(Op::DiskDelete { path: format!("tpl/{}", f) });
                notes.push(OpNote::default());
                ops.push(Op::FullReload { faults: vec![] });
                notes.push(OpNote { invalid: Some("file-vanishes".into()), replaces_dependency: true });
                if rng.chance(1, 2) {
                    // ... and comes back
                    if let Some(it) = valid_items.iter().find(|it| it.0 == f) {
                        ops.push(Op::DiskWrite { path: format!("tpl/{}", f), hex: hexs(&it.1) });
                        notes.push(OpNote::default());
                        ops.push(Op::FullReload { faults: vec![] });
                        notes.push(OpNote::default());
                    }
                }
            }
            continue;
        }
        let x = rng.below(n);
        let mut s = specs[x].clone();
        let kind = rng.below(13);
        let label = match kind {
            12 if prefixes.len() >= 2 => {
                // the same base name under the other prefix: a short-name reference must keep
                // resolving to the first prefix in configuration order
                let cands: Vec<&String> = names.iter().filter(|nm| prefixes.iter().any(|p| nm.starts_with(p.as_str()))).collect();
                if !cands.is_empty() {
                    let full = rng.pick(&cands);
                    let (pi, short) = prefixes.iter().enumerate().find_map(|(i, p)| full.strip_prefix(p.as_str()).map(|s| (i, s.to_string()))).unwrap();
                    let other = &prefixes[(pi + 1) % prefixes.len()];
                    s = GSpec { name: format!("{}{}", other, short), extends: None, incs: vec![], super_call: false };
                }
                "other-prefix-twin"
            }
            0 => {
                s.incs.push((refer(&names[x], &rng, &prefixes), place(&rng)));
                "include-self-loop"
            }
            1 => {
                s.extends = Some(refer(&names[x], &rng, &prefixes));
                "extends-self-loop"
            }
            2 | 3 => {
                // close an include cycle: x includes something that (transitively) includes x
                let y = rng.range(x, n - 1);
                s.incs.push((refer(&names[y], &rng, &prefixes), place(&rng)));
                "include-back-edge"
            }
            4 | 5 => {
                let y = rng.range(x, n - 1);
                s.extends = Some(refer(&names[y], &rng, &prefixes));
                "extends-back-edge"
            }
            6 => {
                s.incs.push(("nowhere".to_string(), place(&rng)));
                "dangling-include"
            }
            7 => {
                s.extends = Some("nowhere".to_string());
                "dangling-extends"
            }
            8 => {
                s.incs.clear();
                "drop-includes"
            }
            9 => {
                s.extends = None;
                "drop-extends"
            }
            10 if !prefixes.is_empty() => {
                // add an exact-name twin of a prefixed template (resolution flips to the twin)
                let cands: Vec<&String> = names.iter().filter(|nm| prefixes.iter().any(|p| nm.starts_with(p.as_str()))).collect();
                if let Some(full) = cands.first() {
                    let short = prefixes.iter().find_map(|p| full.strip_prefix(p.as_str())).unwrap().to_string();
                    s = GSpec { name: short, extends: None, incs: if rng.chance(1, 2) { vec![(refer(&names[x], &rng, &prefixes), place(&rng))] } else { vec![] }, super_call: false };
                }
                "exact-name-twin"
            }
            _ => {
                s.super_call = !s.super_call;
                "toggle-super"
            }
        };
        let item = (s.name.clone(), render_src(&s));
        if disk_mode && file_names.contains(&item.0) && rng.chance(1, 2) {
            // the change arrives through the file and a reload
            ops.push(Op::DiskWrite { path: format!("tpl/{}", item.0), hex: hexs(&item.1) });
            notes.push(OpNote::default());
            ops.push(Op::FullReload { faults: vec![] });
        } else if rng.chance(1, 3) {
            // inside a batch together with an unrelated valid re-add
            let other = rng.pick(&valid_items);
            let mut items = vec![other, item];
            if rng.chance(1, 2) {
                items.reverse();
            }
            ops.push(Op::AddBatch { items });
        } else {
            ops.push(Op::AddRaw { name: item.0, source: item.1 });
        }
        notes.push(OpNote { invalid: Some(label.to_string()), replaces_dependency: true });
        // keep the generator's picture in sync only loosely: later mutations start from the
        // original specs again, so both "repair" and "break again" sequences occur
        if rng.chance(1, 2) && s.name == specs[x].name {
            specs[x] = s;
        }
    }

    let mut probe_names: Vec<String> = names.clone();
    for nm in &names {
        for p in &prefixes {
            if let Some(short) = nm.strip_prefix(p.as_str()) {
                if !probe_names.contains(&short.to_string()) {
                    probe_names.push(short.to_string());
                }
            }
        }
    }
    probe_names.push("nowhere".to_string());
    let comps: Vec<CompProbe> = names.iter().take(4).map(|nm| CompProbe { name: comp_name(nm), ctx: SCtx::default(), body: None }).collect();
    RegScenario {
        family: "graph".into(),
        property: property.to_string(),
        config: Config { autoescape: None, prefixes, delims: Default::default(), global: SCtx::default(), custom: false },
        hash_base: rng.next_u64(),
        contexts: vec![SCtx::default()],
        probe: {
            let oneoffs: Vec<String> = comps.iter().map(|c| format!("one-off {{{{ <{}/> }}}}", c.name)).collect();
            Probe { names: probe_names, blocks: vec!["b".to_string()], comps, oneoffs }
        },
        ops,
        notes,
        fresh_seed: rng.next_u64(),
        crash_shape: String::new(),
        graph_model: true,
        inherit_model: false,
        step_budget: 2_000_000,
        render_accepted: true,
        render_f2_states: false,
    }
}

pub fn graph_shape_hash(m: &Model) -> (u64, bool) {
    let g = GraphModel::from_model(m);
    let mut f = Fnv::new();
    // canonical: names replaced by their rank
    let rank: BTreeMap<&String, usize> = g.nodes.keys().enumerate().map(|(i, k)| (k, i)).collect();
    for (n, node) in &g.nodes {
        f.u64(rank[n] as u64);
        f.u64(node.extends.as_ref().and_then(|e| g.resolve(e)).and_then(|r| rank.get(&r).copied()).map(|x| x as u64 + 1).unwrap_or(0));
        let mut es: Vec<(u64, Place)> = node.incs.iter().map(|(t, p)| (g.resolve(t).and_then(|r| rank.get(&r).copied()).map(|x| x as u64 + 1).unwrap_or(0), *p)).collect();
        es.sort();
        for (t, p) in es {
            f.u64(t);
            f.u64(p as u64);
        }
        f.u64(node.super_call as u64);
    }
    f.u64(g.prefixes.len() as u64);
    let v = g.verdict();
    let nontrivial = !v.is_empty() || g.max_depth() >= 4;
    (f.get(), nontrivial)
}
