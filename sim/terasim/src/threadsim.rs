//! Engine `threadsim` (C18, schedules): the "template server" a deployment builds around Tera —
//! request threads rendering a shared instance while an admin thread registers templates — run
//! under shuttle with a scheduler the simulator owns (seeded random / PCT / replay of a recorded
//! task sequence), compared with a sequential reference (DESIGN.md §5.1).
use crate::common::{catch, Outcome, Stats, Violation};
use crate::engine::{self, new_tera, Config};
use crate::gen::{Gen, GenCfg};
use crate::rendersim::{comp_probe_ctx, rtag, run_target, Target};
use crate::rng::{Fnv, Rng};
use crate::sval::{gen_context, gen_global_context, SCtx};
use crate::writer::{FaultAt, SimWriter, WPlan, ALL_KINDS};
use ahash::sim::Mode;
use serde::{Deserialize, Serialize};
use shuttle::scheduler::{Schedule, Scheduler, Task, TaskId};
use std::cell::Cell;
use std::sync::{Arc as StdArc, Mutex as StdMutex};
use tera::{Context, Tera};

#[derive(Clone, Debug, Serialize, Deserialize, PartialEq)]
pub enum AdminOp {
    AddBatch { items: Vec<(String, String)> },
    AutoescapeOn { suffixes: Vec<String> },
}

#[derive(Clone, Debug, Serialize, Deserialize, PartialEq)]
pub struct Job {
    pub target: Target,
    pub ctx: usize,
    pub plan: WPlan,
}

#[derive(Clone, Debug, Serialize, Deserialize, PartialEq)]
pub enum Sched {
    Random { seed: u64, iterations: usize },
    Pct { seed: u64, iterations: usize, depth: usize },
    /// an explicit task sequence recorded from a failing iteration
    Replay { trace: Vec<usize> },
}

#[derive(Clone, Debug, Serialize, Deserialize, PartialEq)]
pub struct ThreadScenario {
    pub config: Config,
    pub hash_base: u64,
    pub templates: Vec<(String, String)>,
    pub contexts: Vec<SCtx>,
    pub admin: Vec<AdminOp>,
    pub readers: Vec<Vec<Job>>,
    /// "rwlock": one Arc<RwLock<Tera>>; "snapshot": ArcSwap-style clone / mutate / publish
    pub mode: String,
    pub scheds: Vec<Sched>,
    /// yield at every n-th writer call / callback, and every m-th VM instruction
    pub yield_every_call: u64,
    pub yield_every_step: u64,
}

// ------------------------------------------------------------------------------------------------
// the scheduler: owned by the simulator so that VERIF_SEED decides every choice and every
// iteration's task sequence is recorded
// ------------------------------------------------------------------------------------------------

pub struct SimScheduler {
    kind: Sched,
    rng: Rng,
    iteration: usize,
    step: usize,
    prev_len: usize,
    // PCT state
    prio: Vec<u64>,
    change_points: Vec<usize>,
    next_low: u64,
    /// trace of the current iteration, shared with the test body
    trace: StdArc<StdMutex<Vec<usize>>>,
    diverged: StdArc<StdMutex<usize>>,
}

impl SimScheduler {
    pub fn new(kind: Sched, trace: StdArc<StdMutex<Vec<usize>>>, diverged: StdArc<StdMutex<usize>>) -> SimScheduler {
        let seed = match &kind {
            Sched::Random { seed, .. } | Sched::Pct { seed, .. } => *seed,
            Sched::Replay { .. } => 0,
        };
        SimScheduler { kind, rng: Rng::new(seed), iteration: 0, step: 0, prev_len: 64, prio: vec![], change_points: vec![], next_low: 0, trace, diverged }
    }
    fn max_iterations(&self) -> usize {
        match &self.kind {
            Sched::Random { iterations, .. } | Sched::Pct { iterations, .. } => *iterations,
            Sched::Replay { .. } => 1,
        }
    }
}

impl Scheduler for SimScheduler {
    fn new_execution(&mut self) -> Option<Schedule> {
        if self.iteration >= self.max_iterations() {
            return None;
        }
        if self.iteration > 0 {
            self.prev_len = self.step.max(8);
        }
        self.iteration += 1;
        self.step = 0;
        self.trace.lock().unwrap().clear();
        if let Sched::Pct { depth, .. } = &self.kind {
            self.prio.clear();
            self.next_low = 0;
            let d = (*depth).max(1);
            self.change_points = (0..d - 1).map(|_| self.rng.below(self.prev_len.max(1))).collect();
        }
        Some(Schedule::new(self.rng.next_u64()))
    }

    fn next_task(&mut self, runnable: &[&Task], current: Option<TaskId>, _is_yielding: bool) -> Option<TaskId> {
        let ids: Vec<usize> = runnable.iter().map(|t| usize::from(t.id())).collect();
        let choice = match &self.kind {
            Sched::Random { .. } => {
                // mild bias towards staying on the current task keeps renders making progress
                let cur = current.map(usize::from);
                if let Some(c) = cur {
                    if ids.contains(&c) && self.rng.chance(1, 2) {
                        c
                    } else {
                        self.rng.pick(&ids)
                    }
                } else {
                    self.rng.pick(&ids)
                }
            }
            Sched::Pct { depth, .. } => {
                let d = (*depth).max(1) as u64;
                for id in &ids {
                    while self.prio.len() <= *id {
                        // initial priorities are all above d
                        self.prio.push(d + 1 + (self.rng.next_u64() >> 16));
                    }
                }
                if self.change_points.contains(&self.step) {
                    if let Some(c) = current.map(usize::from) {
                        if c < self.prio.len() {
                            self.prio[c] = self.next_low;
                            self.next_low += 1;
                        }
                    }
                }
                *ids.iter().max_by_key(|id| self.prio[**id]).unwrap()
            }
            Sched::Replay { trace } => match trace.get(self.step) {
                Some(t) if ids.contains(t) => *t,
                _ => {
                    *self.diverged.lock().unwrap() += 1;
                    ids[0]
                }
            },
        };
        self.step += 1;
        self.trace.lock().unwrap().push(choice);
        Some(TaskId::from(choice))
    }

    fn next_u64(&mut self) -> u64 {
        self.rng.next_u64()
    }
}

// ------------------------------------------------------------------------------------------------
// yield points
// ------------------------------------------------------------------------------------------------

thread_local! {
    static PROBE_AFTER_ADMIN: Cell<u64> = const { Cell::new(0) };
    static PROBE_BETWEEN_ADMIN: Cell<u64> = const { Cell::new(0) };
    static PROBE_INTERLEAVED: Cell<u64> = const { Cell::new(0) };
    static CALLS: Cell<u64> = const { Cell::new(0) };
    static EVERY_CALL: Cell<u64> = const { Cell::new(1) };
    static YIELDS: Cell<u64> = const { Cell::new(0) };
}

thread_local! {
    /// number of task switches observed (self-test facility, see `selfbug`)
    static SWITCHES: Cell<u64> = const { Cell::new(0) };
    static LAST_TASK: Cell<usize> = const { Cell::new(usize::MAX) };
}

/// Self-test only (env TERASIM_SELFBUG=1): pretend a render is corrupted whenever another task
/// ran between its start and its end. Proves that a schedule-dependent failure is found, pinned
/// to a recorded task sequence and reproduced from the replay file in a fresh process.
fn selfbug() -> bool {
    std::env::var("TERASIM_SELFBUG").is_ok()
}

fn note_task() {
    let me: usize = usize::from(shuttle::current::me());
    LAST_TASK.with(|l| {
        if l.get() != me {
            l.set(me);
            SWITCHES.with(|s| s.set(s.get() + 1));
        }
    });
}

fn do_yield() {
    YIELDS.with(|y| y.set(y.get() + 1));
    // sleep(0), not yield_now: keeps PCT's priorities effective (a yield hint deprioritises)
    shuttle::thread::sleep(std::time::Duration::from_millis(0));
    note_task();
}

fn call_yield() {
    let n = CALLS.with(|c| {
        let n = c.get() + 1;
        c.set(n);
        n
    });
    if n % EVERY_CALL.with(|e| e.get()).max(1) == 0 {
        do_yield();
    }
}

// ------------------------------------------------------------------------------------------------
// generation
// ------------------------------------------------------------------------------------------------

pub fn generate(seed: u64, tier: &str, _property: &str) -> ThreadScenario {
    let rng = Rng::new(seed);
    let mut cfg = GenCfg::swarm(&rng);
    cfg.n_templates = rng.range(2, 5);
    cfg.cost_budget = 300;
    cfg.stmts_per_body = cfg.stmts_per_body.min(4);
    let config = Config { autoescape: None, prefixes: cfg.prefixes.clone(), delims: cfg.delims.clone(), global: gen_global_context(&rng), custom: true };
    let grng = rng.fork(3);
    let mut g = Gen::new(&grng, GenCfg { custom: true, ..cfg });
    for i in 0..g.cfg.n_templates {
        g.gen_template(i);
    }
    let n = g.world.info.len();
    let templates = g.world.templates.clone();
    // admin operations: valid replacement, invalid batch (must leave nothing behind), reconfig
    let mut admin = Vec::new();
    for _ in 0..rng.below(3) {
        let prefixed: Vec<String> = g.world.info.iter().map(|t| t.name.clone()).filter(|nm| g.cfg.prefixes.iter().any(|p| nm.starts_with(p.as_str()))).collect();
        if !prefixed.is_empty() && rng.chance(1, 3) {
            // a template that takes over a short name: the exact-name twin of a prefixed
            // template, or the same base name under another prefix (resolution must flip for
            // renders that start after publication, and only for those)
            let full = rng.pick(&prefixed);
            let (pi, short) = g.cfg.prefixes.iter().enumerate().find_map(|(i, p)| full.strip_prefix(p.as_str()).map(|s| (i, s.to_string()))).unwrap();
            let name = if g.cfg.prefixes.len() > 1 && rng.chance(1, 2) { format!("{}{}", g.cfg.prefixes[(pi + 1) % g.cfg.prefixes.len()], short) } else { short };
            admin.push(AdminOp::AddBatch { items: vec![(name, format!("TWIN{}", rng.below(9)))] });
            continue;
        }
        match rng.below(4) {
            0 | 1 => {
                let i = rng.below(n);
                let src = g.regen_template(i);
                admin.push(AdminOp::AddBatch { items: vec![(g.world.info[i].name.clone(), src)] });
            }
            2 => {
                let i = rng.below(n);
                let j = rng.below(n);
                let d = g.cfg.delims.clone();
                admin.push(AdminOp::AddBatch {
                    items: vec![
                        (g.world.info[j].name.clone(), format!("replaced-then-rolled-back{}", rng.below(9))),
                        (g.world.info[i].name.clone(), format!("{} if {}", d.bs, d.be)),
                    ],
                });
            }
            _ => admin.push(AdminOp::AutoescapeOn { suffixes: if rng.chance(1, 2) { vec![] } else { vec![".html".into(), ".txt".into(), "".into()] } }),
        }
    }
    let mut targets: Vec<Target> = g.world.info.iter().map(|t| Target::Template { name: t.name.clone() }).collect();
    for t in &g.world.info {
        if let Some(b) = t.chain_blocks.first() {
            targets.push(Target::Block { name: t.name.clone(), block: b.clone() });
        }
    }
    for c in &g.world.comps {
        targets.push(Target::Component { name: c.name.clone(), ctx: comp_probe_ctx(c, false), body: None, autoescape: true });
        if rng.chance(1, 2) {
            targets.push(Target::Component { name: c.name.clone(), ctx: comp_probe_ctx(c, false), body: Some("<b>&</b>".into()), autoescape: false });
        }
    }
    // recursive components called deep (12 levels, legal under the limit of 20): the depth
    // bookkeeping of concurrent renders must not add up
    let mut deep_targets: Vec<Target> = Vec::new();
    for c in &g.world.comps {
        if c.recursive && c.params.iter().any(|p| p.name == "count") {
            let mut cx = comp_probe_ctx(c, false);
            for kv in cx.0.iter_mut() {
                if kv.0 == "count" {
                    kv.1 = crate::sval::SVal::I64(12);
                }
            }
            let t = Target::Component { name: c.name.clone(), ctx: cx, body: None, autoescape: true };
            deep_targets.push(t.clone());
            targets.push(t);
        }
    }
    // one-off sources, each under both escaping modes (overlapping `render_str` calls on one
    // shared engine must not influence each other)
    for _ in 0..rng.range(0, 2) {
        let src = g.gen_one_off();
        targets.push(Target::Str { source: src.clone(), autoescape: true });
        targets.push(Target::Str { source: src, autoescape: false });
    }
    let n_readers = rng.range(2, 4);
    let mut readers = Vec::new();
    for _ in 0..n_readers {
        let mut jobs = Vec::new();
        for _ in 0..rng.range(1, 3) {
            let plan = match rng.below(5) {
                0 => WPlan::transient(rng.next_u64()),
                1 => WPlan::fail(FaultAt::Call(rng.below(6)), rng.pick(&ALL_KINDS)),
                2 => WPlan::fail(FaultAt::Byte(rng.below(40)), rng.pick(&ALL_KINDS)),
                _ => WPlan::perfect(),
            };
            // (when a deep recursive call exists, a third of the jobs are that call, so that
            // two of them overlap in most schedules)
            let target = if !deep_targets.is_empty() && rng.chance(1, 3) { rng.pick(&deep_targets) } else { rng.pick(&targets) };
            jobs.push(Job { target, ctx: rng.below(3), plan });
        }
        readers.push(jobs);
    }
    let iters = if tier == "thorough" { 200 } else { 60 };
    let scheds = vec![Sched::Random { seed: rng.next_u64(), iterations: iters * 2 / 3 }, Sched::Pct { seed: rng.next_u64(), iterations: iters / 3, depth: 3 }];
    ThreadScenario {
        config,
        hash_base: rng.next_u64(),
        templates,
        contexts: vec![gen_context(&rng, 0), gen_context(&rng, 1), gen_context(&rng, 2)],
        admin,
        readers,
        mode: if rng.chance(1, 2) { "rwlock".into() } else { "snapshot".into() },
        scheds,
        yield_every_call: rng.pick(&[1, 2, 5, 17, 64]),
        yield_every_step: rng.pick(&[0, 3, 11, 50]),
    }
}

// ------------------------------------------------------------------------------------------------
// execution
// ------------------------------------------------------------------------------------------------

fn apply_admin(t: &mut Tera, op: &AdminOp) {
    match op {
        AdminOp::AddBatch { items } => {
            let _ = t.add_raw_templates(items.iter().map(|(a, b)| (a.as_str(), b.as_str())));
        }
        AdminOp::AutoescapeOn { suffixes } => t.autoescape_on(suffixes.clone()),
    }
}

fn fingerprint(t: &Tera, ctx: &Context) -> u64 {
    let mut f = Fnv::new();
    let mut names: Vec<&str> = t.get_template_names().collect();
    names.sort();
    for n in names {
        f.str(n);
        f.str(&engine::canon(&t.render(n, ctx)));
    }
    f.get()
}

type Rec = (usize, usize, usize, Vec<u8>, String); // reader, job, version, bytes, result

pub fn execute(sc: &ThreadScenario, stats: &mut Stats) -> Outcome {
    let mut out = Outcome::default();
    let mut log = Fnv::new();
    ahash::sim::reset(Mode::PerInstance, sc.hash_base);
    engine::set_yield(0, None);
    engine::set_callback_yield(None);
    let mut t0 = new_tera(&sc.config);
    stats.inc("thread_scenarios");
    if let Err(e) = t0.add_raw_templates(sc.templates.iter().map(|(n, s)| (n.as_str(), s.as_str()))) {
        stats.inc("worlds_rejected");
        log.str(&format!("{}", e));
        out.fingerprint = log.get();
        return out;
    }
    let ctxs: Vec<Context> = sc.contexts.iter().map(|c| c.to_context()).collect();

    // ---- sequential reference: every version x every job
    let mut versions: Vec<Tera> = vec![t0.clone()];
    for op in &sc.admin {
        let mut next = versions.last().unwrap().clone();
        apply_admin(&mut next, op);
        versions.push(next);
    }
    let mut refs: Vec<Vec<Vec<(Vec<u8>, String)>>> = Vec::new(); // [version][reader][job]
    for v in &versions {
        let mut per_reader = Vec::new();
        for jobs in &sc.readers {
            let mut per_job = Vec::new();
            for j in jobs {
                let mut w = SimWriter::new(j.plan.clone());
                let r = match catch(|| run_target(v, &j.target, &ctxs[j.ctx.min(ctxs.len() - 1)], &mut w)) {
                    Ok(r) => rtag(&r),
                    Err(p) => format!("PANIC:{}", p),
                };
                stats.inc("reference_renders");
                log.bytes(&w.accepted);
                log.str(&r);
                per_job.push((w.accepted, r));
            }
            per_reader.push(per_job);
        }
        refs.push(per_reader);
    }
    let final_fp = fingerprint(versions.last().unwrap(), &ctxs[0]);
    let nontrivial_world = sc.readers.iter().map(|j| j.len()).sum::<usize>() >= 2;

    // ---- scheduled executions
    let shared_sc = StdArc::new(sc.clone());
    let shared_refs = StdArc::new(refs);
    let shared_ctxs = StdArc::new(ctxs);
    let t0 = StdArc::new(t0);
    for (si, sched) in sc.scheds.iter().enumerate() {
        let trace = StdArc::new(StdMutex::new(Vec::<usize>::new()));
        let diverged = StdArc::new(StdMutex::new(0usize));
        let found: StdArc<StdMutex<Vec<(Violation, Vec<usize>)>>> = StdArc::new(StdMutex::new(Vec::new()));
        let traces: StdArc<StdMutex<Vec<u64>>> = StdArc::new(StdMutex::new(Vec::new()));
        let iterations_done = StdArc::new(StdMutex::new(0u64));
        let scheduler = SimScheduler::new(sched.clone(), trace.clone(), diverged.clone());
        let mut cfg = shuttle::Config::new();
        cfg.stack_size = 2 << 20;
        cfg.failure_persistence = shuttle::FailurePersistence::None;
        cfg.silence_warnings = true;
        let runner = shuttle::Runner::new(scheduler, cfg);

        EVERY_CALL.with(|e| e.set(sc.yield_every_call.max(1)));
        engine::set_yield(sc.yield_every_step, if sc.yield_every_step > 0 { Some(do_yield) } else { None });
        engine::set_callback_yield(Some(call_yield));

        let (sc2, refs2, ctxs2, t02) = (shared_sc.clone(), shared_refs.clone(), shared_ctxs.clone(), t0.clone());
        let (found2, trace2, traces2, iters2) = (found.clone(), trace.clone(), traces.clone(), iterations_done.clone());
        let hash_base = sc.hash_base;
        let body = move || {
            // every iteration starts from the same simulator state, so that a recorded task
            // sequence replays in a fresh process
            ahash::sim::reset(Mode::PerInstance, hash_base ^ 0x5151);
            CALLS.with(|c| c.set(0));
            engine::reset_steps();
            let recs: StdArc<StdMutex<Vec<Rec>>> = StdArc::new(StdMutex::new(Vec::new()));
            let final_state: StdArc<StdMutex<Option<Tera>>> = StdArc::new(StdMutex::new(None));
            if sc2.mode == "rwlock" {
                let shared = shuttle::sync::Arc::new(shuttle::sync::RwLock::new(((*t02).clone(), 0usize)));
                let mut handles = Vec::new();
                {
                    let (shared, sc3) = (shared.clone(), sc2.clone());
                    handles.push(shuttle::thread::spawn(move || {
                        for op in &sc3.admin {
                            let mut g = shared.write().unwrap();
                            apply_admin(&mut g.0, op);
                            g.1 += 1;
                            drop(g);
                            do_yield();
                        }
                    }));
                }
                for (ri, jobs) in sc2.readers.iter().enumerate() {
                    let (shared, recs, ctxs3, jobs) = (shared.clone(), recs.clone(), ctxs2.clone(), jobs.clone());
                    handles.push(shuttle::thread::spawn(move || {
                        for (ji, j) in jobs.iter().enumerate() {
                            let g = shared.read().unwrap();
                            let v = g.1;
                            let mut w = SimWriter::new(j.plan.clone());
                            w.on_call = Some(call_yield);
                            note_task();
                            let sw0 = SWITCHES.with(|s| s.get());
                            let r = match catch(|| run_target(&g.0, &j.target, &ctxs3[j.ctx.min(ctxs3.len() - 1)], &mut w)) {
                                Ok(r) => rtag(&r),
                                Err(p) => format!("PANIC:{}", p),
                            };
                            if SWITCHES.with(|s| s.get()) > sw0 {
                                PROBE_INTERLEAVED.with(|c| c.set(c.get() + 1));
                            }
                            if selfbug() && SWITCHES.with(|s| s.get()) > sw0 + 3 {
                                w.accepted.push(b'!');
                            }
                            drop(g);
                            recs.lock().unwrap().push((ri, ji, v, w.accepted, r));
                            do_yield();
                        }
                    }));
                }
                for h in handles {
                    let _ = h.join();
                }
                *final_state.lock().unwrap() = Some(shared.read().unwrap().0.clone());
            } else {
                // ArcSwap style: readers take a snapshot and render from it while the admin
                // clones, mutates the clone and publishes it
                let shared = shuttle::sync::Arc::new(shuttle::sync::Mutex::new(StdArc::new(((*t02).clone(), 0usize))));
                let mut handles = Vec::new();
                {
                    let (shared, sc3) = (shared.clone(), sc2.clone());
                    handles.push(shuttle::thread::spawn(move || {
                        for op in &sc3.admin {
                            let snap = shared.lock().unwrap().clone();
                            do_yield();
                            let mut next = snap.0.clone();
                            do_yield();
                            apply_admin(&mut next, op);
                            do_yield();
                            *shared.lock().unwrap() = StdArc::new((next, snap.1 + 1));
                            do_yield();
                        }
                    }));
                }
                for (ri, jobs) in sc2.readers.iter().enumerate() {
                    let (shared, recs, ctxs3, jobs) = (shared.clone(), recs.clone(), ctxs2.clone(), jobs.clone());
                    handles.push(shuttle::thread::spawn(move || {
                        for (ji, j) in jobs.iter().enumerate() {
                            let snap = shared.lock().unwrap().clone();
                            let v = snap.1;
                            let mut w = SimWriter::new(j.plan.clone());
                            w.on_call = Some(call_yield);
                            note_task();
                            let sw0 = SWITCHES.with(|s| s.get());
                            let r = match catch(|| run_target(&snap.0, &j.target, &ctxs3[j.ctx.min(ctxs3.len() - 1)], &mut w)) {
                                Ok(r) => rtag(&r),
                                Err(p) => format!("PANIC:{}", p),
                            };
                            if SWITCHES.with(|s| s.get()) > sw0 {
                                PROBE_INTERLEAVED.with(|c| c.set(c.get() + 1));
                            }
                            recs.lock().unwrap().push((ri, ji, v, w.accepted, r));
                            do_yield();
                        }
                    }));
                }
                for h in handles {
                    let _ = h.join();
                }
                *final_state.lock().unwrap() = Some(shared.lock().unwrap().0.clone());
            }
            // ---- oracle: every render equals the sequential reference for its version
            let tr = trace2.lock().unwrap().clone();
            let mut f = Fnv::new();
            let mut last = usize::MAX;
            for t in &tr {
                if *t != last {
                    f.u64(*t as u64);
                    last = *t;
                }
            }
            traces2.lock().unwrap().push(f.get());
            *iters2.lock().unwrap() += 1;
            for (ri, ji, v, bytes, res) in recs.lock().unwrap().iter() {
                if *v > 0 {
                    PROBE_AFTER_ADMIN.with(|c| c.set(c.get() + 1));
                }
                if *v > 0 && *v < refs2.len() - 1 {
                    PROBE_BETWEEN_ADMIN.with(|c| c.set(c.get() + 1));
                }
                let (rb, rr) = &refs2[(*v).min(refs2.len() - 1)][*ri][*ji];
                if res.starts_with("PANIC:") && !rr.starts_with("PANIC:") {
                    found2.lock().unwrap().push((Violation::new("C18", "panic-in-concurrent-render", format!("reader {} job {} version {}: {}", ri, ji, v, res)), tr.clone()));
                } else if bytes != rb || res != rr {
                    found2.lock().unwrap().push((
                        Violation::new(
                            "C18",
                            "concurrent-render-differs-from-sequential",
                            format!(
                                "reader {} job {} rendered under registry version {}: got {} {:?}, sequential reference {} {:?}",
                                ri,
                                ji,
                                v,
                                engine::trunc(res),
                                engine::trunc(&String::from_utf8_lossy(bytes)),
                                engine::trunc(rr),
                                engine::trunc(&String::from_utf8_lossy(rb))
                            ),
                        ),
                        tr.clone(),
                    ));
                }
            }
            let fs_opt = final_state.lock().unwrap().take();
            if let Some(fs) = fs_opt.as_ref() {
                // measured outside any yield point
                let every = EVERY_CALL.with(|e| e.replace(u64::MAX));
                let fp = fingerprint(fs, &ctxs2[0]);
                EVERY_CALL.with(|e| e.set(every));
                if fp != final_fp {
                    found2.lock().unwrap().push((Violation::new("C18", "final-registry-differs-from-sequential", "after all threads joined".to_string()), tr.clone()));
                }
            }
        };
        let run = catch(move || runner.run(body));
        engine::set_yield(0, None);
        engine::set_callback_yield(None);
        let iters = *iterations_done.lock().unwrap();
        stats.add("schedules", iters);
        stats.add("scheduler_yields", YIELDS.with(|y| y.replace(0)));
        stats.add("probe_render_with_another_task_running_inside_it", PROBE_INTERLEAVED.with(|c| c.replace(0)));
        stats.add("probe_render_after_an_admin_operation", PROBE_AFTER_ADMIN.with(|c| c.replace(0)));
        stats.add("probe_render_between_two_admin_operations", PROBE_BETWEEN_ADMIN.with(|c| c.replace(0)));
        stats.add(if sc.mode == "rwlock" { "probe_schedules_rwlock_mode" } else { "probe_schedules_snapshot_mode" }, iters);
        stats.inc(&format!("sched_{}", match sched { Sched::Random { .. } => "random", Sched::Pct { .. } => "pct", Sched::Replay { .. } => "replay" }));
        let d = *diverged.lock().unwrap();
        if d > 0 {
            stats.add("replay_divergences", d as u64);
        }
        for h in traces.lock().unwrap().iter() {
            stats.distinct_in("interleavings", *h);
            log.u64(*h);
        }
        if let Err(p) = run {
            // deadlock or a panic that escaped a task
            let tr = trace.lock().unwrap().clone();
            let inv = if p.contains("deadlock") { "deadlock" } else { "panic-in-scheduled-execution" };
            out.violations.push(Violation::new("C18", inv, format!("scheduler {} ({:?}): {}; trace {:?}", si, sched_kind(sched), engine::trunc(&p), &tr[..tr.len().min(64)])));
            out.deferred.push(serde_json::json!({"replay_trace": tr}));
        }
        let mut found = found.lock().unwrap();
        if let Some((v, tr)) = found.first().cloned() {
            out.violations.push(v);
            // the replay scenario pins the schedule of the failing iteration
            out.deferred.push(serde_json::json!({"replay_trace": tr}));
        }
        found.clear();
        if !out.violations.is_empty() {
            break;
        }
    }
    if nontrivial_world {
        stats.inc("nontrivial_thread_scenarios");
    }
    stats.sample(2, || {
        serde_json::json!({
            "engine": "threadsim", "mode": sc.mode, "readers": sc.readers.iter().map(|j| j.len()).collect::<Vec<_>>(), "admin_ops": sc.admin.len(),
            "yield_every_call": sc.yield_every_call, "yield_every_step": sc.yield_every_step,
            "schedulers": sc.scheds.iter().map(sched_kind).collect::<Vec<_>>(),
        })
    });
    out.fingerprint = log.get();
    out
}

fn sched_kind(s: &Sched) -> String {
    match s {
        Sched::Random { iterations, .. } => format!("random x{}", iterations),
        Sched::Pct { iterations, depth, .. } => format!("pct(d={}) x{}", depth, iterations),
        Sched::Replay { trace } => format!("replay of {} steps", trace.len()),
    }
}

pub fn shrink_candidates(sc: &ThreadScenario) -> Vec<ThreadScenario> {
    let mut out = Vec::new();
    // fewer readers / jobs / admin ops (a pinned trace no longer applies: re-search schedules)
    let research = |c: &mut ThreadScenario| {
        if c.scheds.iter().any(|s| matches!(s, Sched::Replay { .. })) {
            c.scheds = vec![Sched::Random { seed: 1, iterations: 64 }, Sched::Pct { seed: 2, iterations: 32, depth: 3 }];
        }
    };
    for r in 0..sc.readers.len() {
        if sc.readers.len() > 1 {
            let mut c = sc.clone();
            c.readers.remove(r);
            research(&mut c);
            out.push(c);
        }
        for j in 0..sc.readers[r].len() {
            if sc.readers[r].len() > 1 {
                let mut c = sc.clone();
                c.readers[r].remove(j);
                research(&mut c);
                out.push(c);
            }
        }
    }
    for a in 0..sc.admin.len() {
        let mut c = sc.clone();
        c.admin.remove(a);
        research(&mut c);
        out.push(c);
    }
    if sc.templates.len() > 1 {
        for i in 0..sc.templates.len() {
            let mut c = sc.clone();
            c.templates.remove(i);
            research(&mut c);
            out.push(c);
        }
    }
    out
}
