//! Engine `regsim`: histories of registry operations on one long-lived `Tera`, checked step by
//! step against a small reference model and against a fresh instance built from the model's
//! resulting set (DESIGN.md §5.2). Families: general (C10, C07), graph (C11), inherit (C04).
use crate::common::{catch, Outcome, Stats, Violation};
use crate::engine::{self, first_diff, new_tera, observe_guarded, Config, Obs, Probe};
#[allow(unused_imports)]
use crate::gen;
use crate::gen::Delims;
use crate::rng::{Fnv, Rng};
use crate::sval::{unhex, SCtx, SVal};
use ahash::sim::Mode;
use serde::{Deserialize, Serialize};
use std::cell::RefCell;
use std::collections::{BTreeMap, BTreeSet};
use std::path::{Path, PathBuf};
use tera::{Context, Tera};

// ------------------------------------------------------------------------------------------------
// scenario
// ------------------------------------------------------------------------------------------------

#[derive(Clone, Debug, Serialize, Deserialize, PartialEq)]
pub enum DiskAction {
    Delete(String),
    /// keep only the first n bytes
    Truncate(String, usize),
    /// replace the content (hex)
    Replace(String, String),
    /// a directory in place of the file
    MkdirInPlace(String),
}

#[derive(Clone, Debug, Serialize, Deserialize, PartialEq)]
pub struct DiskFault {
    /// fires right before the nth `File::open` (0-based) of this operation
    pub nth: usize,
    pub action: DiskAction,
}

#[derive(Clone, Debug, Serialize, Deserialize, PartialEq)]
pub enum Op {
    AddRaw { name: String, source: String },
    AddBatch { items: Vec<(String, String)> },
    AutoescapeOn { suffixes: Vec<String> },
    SetDelimsLate { delims: Delims },
    SetPrefixesLate { prefixes: Vec<String> },
    /// register the simulator's filter / function / test / escape function on an instance that
    /// was created without them (directly, or through `register_from` another instance)
    RegisterCustom { via_from: bool },
    /// change the engine's global context between renders: insert (or overwrite) a key, remove
    /// one (`val` = None), or merge through `Context::extend`
    SetGlobal { key: String, val: Option<SVal>, via_extend: bool },
    /// continue on a clone; the original must stay exactly as it was
    CloneSwap,
    /// take a clone, set it aside and continue on the original; the clone must stay as it was
    CloneKeep,
    /// build a brand-new instance through the real loading path (disk + manual) and compare
    Restart,
    DiskWrite { path: String, hex: String },
    DiskDelete { path: String },
    DiskMkdir { path: String },
    AddFile { path: String, name: Option<String>, faults: Vec<DiskFault> },
    AddFiles { items: Vec<(String, Option<String>)>, faults: Vec<DiskFault> },
    LoadGlob { pattern: String, faults: Vec<DiskFault> },
    FullReload { faults: Vec<DiskFault> },
}

impl Op {
    pub fn kind(&self) -> &'static str {
        match self {
            Op::AddRaw { .. } => "add_raw",
            Op::AddBatch { .. } => "add_batch",
            Op::AutoescapeOn { .. } => "autoescape_on",
            Op::SetDelimsLate { .. } => "set_delims_late",
            Op::SetPrefixesLate { .. } => "set_prefixes_late",
            Op::RegisterCustom { .. } => "register_custom",
            Op::SetGlobal { .. } => "set_global_context",
            Op::CloneSwap => "clone",
            Op::CloneKeep => "clone_keep",
            Op::Restart => "restart",
            Op::DiskWrite { .. } => "disk_write",
            Op::DiskDelete { .. } => "disk_delete",
            Op::DiskMkdir { .. } => "disk_mkdir",
            Op::AddFile { .. } => "add_file",
            Op::AddFiles { .. } => "add_files",
            Op::LoadGlob { .. } => "load_glob",
            Op::FullReload { .. } => "full_reload",
        }
    }
}

/// What the generator knows about an operation (never used to *decide* acceptance except where
/// the family model is certain; see `family_check`).
#[derive(Clone, Debug, Serialize, Deserialize, PartialEq, Default)]
pub struct OpNote {
    /// the invalid kind injected on purpose, if any
    pub invalid: Option<String>,
    /// replaces a template other templates depend on
    pub replaces_dependency: bool,
}

#[derive(Clone, Debug, Serialize, Deserialize, PartialEq)]
pub struct RegScenario {
    pub family: String,
    pub property: String,
    pub config: Config,
    pub hash_base: u64,
    pub contexts: Vec<SCtx>,
    pub probe: Probe,
    pub ops: Vec<Op>,
    #[serde(default)]
    pub notes: Vec<OpNote>,
    pub fresh_seed: u64,
    /// set on sacrificial-child scenarios: the known crash shape the truncated history ends in
    /// ("include-inside-ancestor-block-reentered-through-super" = F2,
    /// "block-nesting-cycle-through-super" = F4)
    #[serde(default)]
    pub crash_shape: String,
    /// graph family: check acceptance against the reference graph model
    #[serde(default)]
    pub graph_model: bool,
    /// inherit family: check renders against the reference inheritance model
    #[serde(default)]
    pub inherit_model: bool,
    /// VM step budget per render (bounded liveness; deterministic, no wall clock)
    #[serde(default)]
    pub step_budget: u64,
    /// render accepted states at all
    #[serde(default = "yes")]
    pub render_accepted: bool,
    /// also render states whose effective include graph is cyclic (the listed F2 shape); only
    /// set in the sacrificial child process
    #[serde(default)]
    pub render_f2_states: bool,
}

fn yes() -> bool {
    true
}

// ------------------------------------------------------------------------------------------------
// reference model of the registry
// ------------------------------------------------------------------------------------------------

#[derive(Clone, Debug, PartialEq)]
pub struct Entry {
    pub source: String,
    pub from_glob: bool,
}

#[derive(Clone, Debug, PartialEq)]
pub enum DiskNode {
    File(Vec<u8>),
    Dir,
}

#[derive(Clone, Debug)]
pub struct Model {
    pub config: Config,
    pub tpls: BTreeMap<String, Entry>,
    pub glob: Option<String>,
    pub disk: BTreeMap<String, DiskNode>,
    pub disk_dirty: bool,
}

impl Model {
    fn new(config: Config) -> Model {
        Model { config, tpls: BTreeMap::new(), glob: None, disk: BTreeMap::new(), disk_dirty: false }
    }
}

/// Files the model expects a glob to list. Patterns: `<dir>/**/*[.ext]` and `<dir>/*[.ext]`.
fn model_glob_matches(disk: &BTreeMap<String, DiskNode>, pattern: &str) -> Option<BTreeSet<String>> {
    let star = pattern.find('*')?;
    let dir_end = pattern[..star].rfind('/').map(|i| i + 1).unwrap_or(0);
    let dir = &pattern[..dir_end];
    let rest = &pattern[dir_end..];
    let (recursive, tail) = if let Some(t) = rest.strip_prefix("**/") { (true, t) } else { (false, rest) };
    let suffix = tail.strip_prefix('*')?;
    if suffix.contains('*') || suffix.contains('/') || suffix.contains('{') {
        return None;
    }
    let mut out = BTreeSet::new();
    for (p, node) in disk {
        if !matches!(node, DiskNode::File(_)) {
            continue;
        }
        // a file below a path that is (now) a directory marker is still a file; a file whose
        // ancestor is a *file* cannot exist (the simulator never creates that)
        let Some(rel) = p.strip_prefix(dir) else { continue };
        if rel.is_empty() {
            continue;
        }
        if !recursive && rel.contains('/') {
            continue;
        }
        let base = rel.rsplit('/').next().unwrap_or(rel);
        if !base.ends_with(suffix) {
            continue;
        }
        out.insert(p.clone());
    }
    Some(out)
}

// ------------------------------------------------------------------------------------------------
// simulated disk: real files on tmpfs, rewritten from the model; H3 fault points
// ------------------------------------------------------------------------------------------------

struct DiskSim {
    root: PathBuf,
    plan: Vec<DiskFault>,
    opens: usize,
    /// (relative path, content at the instant of the open: Some(bytes) | None = missing/dir)
    reads: Vec<(String, Option<Vec<u8>>)>,
    disk: BTreeMap<String, DiskNode>,
    fired: Vec<&'static str>,
}

thread_local! {
    static DISK: RefCell<Option<DiskSim>> = const { RefCell::new(None) };
}

fn real_write(root: &Path, rel: &str, node: &DiskNode) {
    let p = root.join(rel);
    if let Some(parent) = p.parent() {
        let _ = std::fs::create_dir_all(parent);
    }
    match node {
        DiskNode::File(bytes) => {
            if p.is_dir() {
                let _ = std::fs::remove_dir_all(&p);
            }
            std::fs::write(&p, bytes).expect("tmpfs write");
        }
        DiskNode::Dir => {
            if p.is_file() {
                let _ = std::fs::remove_file(&p);
            }
            let _ = std::fs::create_dir_all(&p);
        }
    }
}

fn real_delete(root: &Path, rel: &str) {
    let p = root.join(rel);
    if p.is_dir() {
        let _ = std::fs::remove_dir_all(&p);
    } else {
        let _ = std::fs::remove_file(&p);
    }
}

fn apply_disk_action(d: &mut DiskSim, a: &DiskAction) {
    match a {
        DiskAction::Delete(p) => {
            d.disk.remove(p);
            real_delete(&d.root, p);
            d.fired.push("toctou_delete");
        }
        DiskAction::Truncate(p, n) => {
            if let Some(DiskNode::File(b)) = d.disk.get(p).cloned() {
                let nb = b[..(*n).min(b.len())].to_vec();
                real_write(&d.root, p, &DiskNode::File(nb.clone()));
                d.disk.insert(p.clone(), DiskNode::File(nb));
                d.fired.push("toctou_truncate");
            }
        }
        DiskAction::Replace(p, hex) => {
            let nb = unhex(hex);
            real_write(&d.root, p, &DiskNode::File(nb.clone()));
            d.disk.insert(p.clone(), DiskNode::File(nb));
            d.fired.push("toctou_replace");
        }
        DiskAction::MkdirInPlace(p) => {
            real_delete(&d.root, p);
            real_write(&d.root, p, &DiskNode::Dir);
            d.disk.insert(p.clone(), DiskNode::Dir);
            d.fired.push("toctou_dir_in_place");
        }
    }
}

fn fault_point_hook(site: &'static str, path: &Path) {
    if site != "add_file.before_open" {
        return;
    }
    DISK.with(|cell| {
        let mut g = cell.borrow_mut();
        let Some(d) = g.as_mut() else { return };
        let idx = d.opens;
        d.opens += 1;
        let plan: Vec<DiskAction> = d.plan.iter().filter(|f| f.nth == idx).map(|f| f.action.clone()).collect();
        for a in &plan {
            apply_disk_action(d, a);
        }
        // the file system, not tera, decides which file a spelling reaches: `a//b`, `a/./b` and
        // `a/x/../b` are the file `a/b` of the model's disk
        let rel = match path.strip_prefix(&d.root) {
            Ok(p) => {
                let mut parts: Vec<String> = Vec::new();
                for c in p.components() {
                    match c {
                        std::path::Component::Normal(x) => parts.push(x.to_string_lossy().to_string()),
                        std::path::Component::ParentDir => {
                            parts.pop();
                        }
                        _ => {}
                    }
                }
                parts.join("/")
            }
            Err(_) => path.to_string_lossy().to_string(),
        };
        let content = match d.disk.get(&rel) {
            Some(DiskNode::File(b)) => Some(b.clone()),
            _ => None,
        };
        d.reads.push((rel, content));
    });
}

fn new_root(tag: u64) -> PathBuf {
    let base = if Path::new("/dev/shm").is_dir() { PathBuf::from("/dev/shm") } else { std::env::temp_dir() };
    let p = base.join(format!("terasim-{}-{:x}", std::process::id(), tag));
    let _ = std::fs::remove_dir_all(&p);
    std::fs::create_dir_all(&p).expect("create simulated disk root");
    p
}

// ------------------------------------------------------------------------------------------------
// execution
// ------------------------------------------------------------------------------------------------

pub struct Exec<'a> {
    pub sc: &'a RegScenario,
    pub stats: &'a mut Stats,
    pub out: Outcome,
    pub log: Fnv,
    root: Option<PathBuf>,
    root_str: String,
}

fn norm(s: &str, root: &str) -> String {
    if root.is_empty() {
        s.to_string()
    } else {
        s.replace(root, "<ROOT>")
    }
}

fn norm_obs(o: Obs, root: &str) -> Obs {
    if root.is_empty() {
        return o;
    }
    o.into_iter().map(|(k, v)| (norm(&k, root), norm(&v, root))).collect()
}

fn shuffled(m: &Model, seed: u64) -> Vec<(String, String)> {
    let mut v: Vec<(String, String)> = m.tpls.iter().map(|(k, e)| (k.clone(), e.source.clone())).collect();
    Rng::new(seed).shuffle(&mut v);
    v
}

pub fn build_fresh(m: &Model, seed: u64, hash_base: u64) -> Result<Tera, String> {
    ahash::sim::reset(Mode::PerInstance, hash_base ^ 0x0F0F_1234_5678_9ABC ^ seed);
    let mut f = new_tera(&m.config);
    let items = shuffled(m, seed);
    match catch(|| f.add_raw_templates(items.iter().map(|(n, s)| (n.as_str(), s.as_str())))) {
        Err(p) => Err(format!("PANIC: {}", p)),
        Ok(Err(e)) => Err(format!("{}", e)),
        Ok(Ok(())) => Ok(f),
    }
}

fn has_dup_names(items: &[(String, String)]) -> bool {
    let mut s = BTreeSet::new();
    items.iter().any(|(n, _)| !s.insert(n.as_str()))
}

/// The model state if `op` succeeds (None: not a registry-changing op or not predictable here).
fn resulting(m: &Model, op: &Op) -> Option<Model> {
    let mut r = m.clone();
    match op {
        Op::AddRaw { name, source } => {
            r.tpls.insert(name.clone(), Entry { source: source.clone(), from_glob: false });
        }
        Op::AddBatch { items } => {
            for (n, s) in items {
                r.tpls.insert(n.clone(), Entry { source: s.clone(), from_glob: false });
            }
        }
        Op::AutoescapeOn { suffixes } => r.config.autoescape = Some(suffixes.clone()),
        Op::SetDelimsLate { delims } => r.config.delims = delims.clone(),
        Op::SetPrefixesLate { prefixes } => r.config.prefixes = prefixes.clone(),
        Op::RegisterCustom { .. } => r.config.custom = true,
        Op::SetGlobal { key, val, .. } => {
            r.config.global.0.retain(|(k, _)| k != key);
            if let Some(v) = val {
                r.config.global.0.push((key.clone(), v.clone()));
            }
        }
        _ => return None,
    }
    Some(r)
}

pub fn execute(sc: &RegScenario, stats: &mut Stats) -> Outcome {
    let mut out = Outcome::default();
    let mut log = Fnv::new();
    let prop = sc.property.as_str();
    let uses_disk = sc.ops.iter().any(|o| matches!(o, Op::DiskWrite { .. } | Op::DiskDelete { .. } | Op::DiskMkdir { .. } | Op::AddFile { .. } | Op::AddFiles { .. } | Op::LoadGlob { .. } | Op::FullReload { .. }));
    let root = if uses_disk { Some(new_root(sc.fresh_seed ^ sc.hash_base)) } else { None };
    let root_str = root.as_ref().map(|p| p.to_string_lossy().to_string()).unwrap_or_default();
    if uses_disk {
        tera::verif::set_fault_point_hook(Some(fault_point_hook));
    }

    ahash::sim::reset(Mode::PerInstance, sc.hash_base);
    let mut model = Model::new(sc.config.clone());
    let mut t = new_tera(&sc.config);
    let ctxs: Vec<Context> = sc.contexts.iter().map(|c| c.to_context()).collect();
    let budget = if sc.step_budget == 0 { 5_000_000 } else { sc.step_budget };
    let obs_r = |t: &Tera, stats: &mut Stats, out: &mut Outcome, do_render: bool| -> Obs {
        let (o, problems) = observe_guarded(t, &ctxs, &sc.probe, budget, do_render && sc.render_accepted);
        stats.inc("obs_taken");
        for (inv, detail) in problems {
            let p = match inv.as_str() {
                "render-exceeds-step-budget" => "C11",
                _ => "C07",
            };
            out.violations.push(Violation::new(p, &inv, detail));
        }
        norm_obs(o, &root_str)
    };
    // a fresh instance is observed with freshly built context objects: the long-lived instance
    // keeps using the long-lived ones (whatever a render may have left behind in a `Context`
    // must not show)
    let obs_fresh = |t: &Tera, stats: &mut Stats, out: &mut Outcome, do_render: bool| -> Obs {
        let c2: Vec<Context> = sc.contexts.iter().map(|c| c.to_context()).collect();
        let (o, problems) = observe_guarded(t, &c2, &sc.probe, budget, do_render && sc.render_accepted);
        stats.inc("obs_taken");
        for (inv, detail) in problems {
            let p = match inv.as_str() {
                "render-exceeds-step-budget" => "C11",
                _ => "C07",
            };
            out.violations.push(Violation::new(p, &inv, detail));
        }
        norm_obs(o, &root_str)
    };
    // whether the *current model state* may be rendered in this process (F2 shape: never)
    let mut renderable = true;

    stats.inc("histories");
    let mut prev = obs_r(&t, stats, &mut out, true);
    let mut original: Option<(Tera, Obs, bool)> = None;
    let mut nontrivial = false;
    let mut shape = Fnv::new();
    let mut failed_ops = 0u64;

    'ops: for (i, op) in sc.ops.iter().enumerate() {
        stats.inc("ops");
        stats.inc(&format!("op_{}", op.kind()));
        let note = sc.notes.get(i).cloned().unwrap_or_default();
        shape.str(op.kind());
        if let Some(k) = &note.invalid {
            shape.str(k);
            stats.inc(&format!("fault_configured_invalid_{}", k));
        }
        let steps0 = engine::steps();

        // ---- apply
        let mut reads: Vec<(String, Option<Vec<u8>>)> = Vec::new();
        let mut expected_listing: Option<BTreeSet<String>> = None;
        let result: Result<Result<(), tera::Error>, String> = match op {
            Op::AddRaw { name, source } => catch(|| t.add_raw_template(name, source)),
            Op::AddBatch { items } => catch(|| t.add_raw_templates(items.iter().map(|(n, s)| (n.as_str(), s.as_str())))),
            Op::AutoescapeOn { suffixes } => catch(|| {
                t.autoescape_on(suffixes.clone());
                Ok(())
            }),
            Op::SetDelimsLate { delims } => catch(|| t.set_delimiters(delims.to_tera())),
            Op::SetPrefixesLate { prefixes } => catch(|| t.set_fallback_prefixes(prefixes.clone())),
            Op::RegisterCustom { via_from } => catch(|| {
                engine::register_custom(&mut t, *via_from);
                Ok(())
            }),
            Op::SetGlobal { key, val, via_extend } => catch(|| {
                match val {
                    None => {
                        t.global_context().remove(key);
                    }
                    Some(v) if *via_extend => {
                        let mut c = tera::Context::new();
                        c.insert_value(key.clone(), v.to_value());
                        t.global_context().extend(c);
                    }
                    Some(v) => t.global_context().insert_value(key.clone(), v.to_value()),
                }
                Ok(())
            }),
            Op::CloneSwap => {
                if original.is_none() {
                    let c = t.clone();
                    let old = std::mem::replace(&mut t, c);
                    // (observed again at the end exactly as it was observed now: a state with a
                    // known crash shape is never rendered in-process)
                    original = Some((old, prev.clone(), renderable));
                    stats.inc("probe_clone_taken");
                }
                Ok(Ok(()))
            }
            Op::CloneKeep => {
                if original.is_none() {
                    original = Some((t.clone(), prev.clone(), renderable));
                    stats.inc("probe_clone_set_aside");
                }
                Ok(Ok(()))
            }
            Op::Restart => {
                // durable state = the template directory + what the application adds manually
                if !model.disk_dirty {
                    ahash::sim::reset(Mode::PerInstance, sc.hash_base ^ 0x7777 ^ i as u64);
                    let mut n = new_tera(&model.config);
                    let mut ok = true;
                    let manual: Vec<(String, String)> = model.tpls.iter().filter(|(_, e)| !e.from_glob).map(|(k, e)| (k.clone(), e.source.clone())).collect();
                    if let (Some(g), Some(r)) = (&model.glob, &root) {
                        let pat = r.join(g).to_string_lossy().to_string();
                        match catch(|| n.load_from_glob(&pat)) {
                            Ok(Ok(())) => {}
                            _ => {
                                // files may depend on manual templates: the application adds
                                // those first, then loads the directory
                                n = new_tera(&model.config);
                                let a = catch(|| n.add_raw_templates(manual.iter().map(|(a, b)| (a.as_str(), b.as_str()))));
                                let b = catch(|| n.load_from_glob(&pat));
                                // a file may carry the name of a manual template added after
                                // the last load: the manual one wins in the long-lived instance
                                // (last writer), so the application adds its own again
                                if !matches!((a, b), (Ok(Ok(())), Ok(Ok(())))) {
                                    ok = false;
                                }
                            }
                        }
                    } else if model.tpls.values().any(|e| e.from_glob) {
                        ok = false;
                    }
                    if ok {
                        match catch(|| n.add_raw_templates(manual.iter().map(|(a, b)| (a.as_str(), b.as_str())))) {
                            Ok(Ok(())) => {
                                let o = obs_fresh(&n, stats, &mut out, renderable);
                                stats.inc("probe_restart_compared");
                                if let Some(d) = first_diff(&prev, &o) {
                                    out.violations.push(Violation::new("C10", "restart-differs-from-long-lived-instance", format!("op {}: {}", i, d)));
                                }
                            }
                            Ok(Err(e)) => {
                                out.violations.push(Violation::new("C10", "restart-refuses-accepted-set", format!("op {}: {}", i, engine::trunc(&format!("{}", e)))));
                            }
                            Err(p) => out.violations.push(Violation::new("C06", "panic-in-registration", format!("restart op {}: {}", i, p))),
                        }
                    }
                }
                Ok(Ok(()))
            }
            Op::DiskWrite { path, hex } => {
                let node = DiskNode::File(unhex(hex));
                real_write(root.as_ref().unwrap(), path, &node);
                model.disk.insert(path.clone(), node);
                model.disk_dirty = true;
                Ok(Ok(()))
            }
            Op::DiskDelete { path } => {
                real_delete(root.as_ref().unwrap(), path);
                model.disk.remove(path);
                // deleting a directory removes what is below it
                let prefix = format!("{}/", path);
                model.disk.retain(|k, _| !k.starts_with(&prefix));
                model.disk_dirty = true;
                Ok(Ok(()))
            }
            Op::DiskMkdir { path } => {
                real_delete(root.as_ref().unwrap(), path);
                real_write(root.as_ref().unwrap(), path, &DiskNode::Dir);
                model.disk.insert(path.clone(), DiskNode::Dir);
                model.disk_dirty = true;
                Ok(Ok(()))
            }
            Op::AddFile { .. } | Op::AddFiles { .. } | Op::LoadGlob { .. } | Op::FullReload { .. } => {
                let r = root.as_ref().unwrap();
                let faults = match op {
                    Op::AddFile { faults, .. } | Op::AddFiles { faults, .. } | Op::LoadGlob { faults, .. } | Op::FullReload { faults } => faults.clone(),
                    _ => vec![],
                };
                for f in &faults {
                    stats.inc(&format!("fault_configured_{}", match &f.action { DiskAction::Delete(_) => "toctou_delete", DiskAction::Truncate(..) => "toctou_truncate", DiskAction::Replace(..) => "toctou_replace", DiskAction::MkdirInPlace(_) => "toctou_dir_in_place" }));
                }
                DISK.with(|d| *d.borrow_mut() = Some(DiskSim { root: r.clone(), plan: faults, opens: 0, reads: vec![], disk: model.disk.clone(), fired: vec![] }));
                let res = match op {
                    Op::AddFile { path, name, .. } => {
                        let p = r.join(path);
                        catch(|| t.add_template_file(&p, name.as_deref()))
                    }
                    Op::AddFiles { items, .. } => {
                        let v: Vec<(PathBuf, Option<String>)> = items.iter().map(|(p, n)| (r.join(p), n.clone())).collect();
                        catch(|| t.add_template_files(v))
                    }
                    Op::LoadGlob { pattern, .. } => {
                        expected_listing = model_glob_matches(&model.disk, pattern);
                        let pat = r.join(pattern).to_string_lossy().to_string();
                        catch(|| t.load_from_glob(&pat))
                    }
                    Op::FullReload { .. } => {
                        if let Some(g) = &model.glob {
                            expected_listing = model_glob_matches(&model.disk, g);
                        }
                        catch(|| t.full_reload())
                    }
                    _ => unreachable!(),
                };
                let d = DISK.with(|d| d.borrow_mut().take()).unwrap();
                if !d.fired.is_empty() {
                    model.disk_dirty = true;
                }
                for f in &d.fired {
                    stats.inc(&format!("fault_fired_{}", f));
                }
                model.disk = d.disk;
                reads = d.reads;
                res
            }
        };
        stats.add("vm_steps", engine::steps() - steps0);

        let r = match result {
            Err(p) => {
                out.violations.push(Violation::new("C06", "panic-in-registration", format!("op {} ({}): {}", i, op.kind(), p)));
                break 'ops;
            }
            Ok(r) => r,
        };
        let ok = r.is_ok();
        if let Err(e) = &r {
            let _ = format!("{} {:?}", e, e); // every error must display
            failed_ops += 1;
            stats.inc("ops_failed");
            stats.inc(&format!("op_failed_{}", engine::kind_tag(e.kind())));
            if let Some(k) = &note.invalid {
                stats.inc(&format!("fault_fired_invalid_{}", k));
            }
            log.str(&norm(&format!("{}", e), &root_str));
        } else {
            stats.inc("ops_ok");
            if matches!(op, Op::RegisterCustom { .. }) && failed_ops > 0 {
                stats.inc("probe_callbacks_registered_after_a_refusal");
            }
        }
        log.u64(ok as u64);

        // ---- model transition
        let mut next_model: Option<Model> = None;
        match op {
            Op::AddRaw { .. } | Op::AddBatch { .. } | Op::AutoescapeOn { .. } | Op::SetDelimsLate { .. } | Op::SetPrefixesLate { .. } | Op::RegisterCustom { .. } | Op::SetGlobal { .. } => {
                next_model = resulting(&model, op);
            }
            Op::AddFile { path, name, .. } => {
                let mut m = model.clone();
                if let Some((_, Some(bytes))) = reads.first() {
                    if let Ok(s) = String::from_utf8(bytes.clone()) {
                        let abs = root.as_ref().unwrap().join(path).to_string_lossy().to_string();
                        m.tpls.insert(name.clone().unwrap_or(abs), Entry { source: s, from_glob: false });
                        next_model = Some(m);
                    }
                }
            }
            Op::AddFiles { items, .. } => {
                let mut m = model.clone();
                let mut all = reads.len() == items.len();
                for ((path, name), (_, content)) in items.iter().zip(reads.iter()) {
                    match content.as_ref().and_then(|b| String::from_utf8(b.clone()).ok()) {
                        Some(s) => {
                            let abs = root.as_ref().unwrap().join(path).to_string_lossy().to_string();
                            m.tpls.insert(name.clone().unwrap_or(abs), Entry { source: s, from_glob: false });
                        }
                        None => all = false,
                    }
                }
                if all {
                    next_model = Some(m);
                }
            }
            Op::LoadGlob { .. } | Op::FullReload { .. } => {
                let pattern = match op {
                    Op::LoadGlob { pattern, .. } => Some(pattern.clone()),
                    _ => model.glob.clone(),
                };
                if let Some(pattern) = pattern {
                    // listing check: the engine must try to open exactly the files the model lists
                    if let Some(exp) = &expected_listing {
                        let got: BTreeSet<String> = reads.iter().map(|(p, _)| p.clone()).collect();
                        if &got != exp {
                            out.violations.push(Violation::new("C10", "glob-listing-differs-from-model", format!("op {}: opened {:?}, model lists {:?}", i, got, exp)));
                        }
                    }
                    let star = pattern.find('*').unwrap_or(0);
                    let dir_end = pattern[..star].rfind('/').map(|k| k + 1).unwrap_or(0);
                    let dir = pattern[..dir_end].to_string();
                    let mut m = model.clone();
                    m.tpls.retain(|_, e| !e.from_glob);
                    let mut all = true;
                    for (p, content) in &reads {
                        match content.as_ref().and_then(|b| String::from_utf8(b.clone()).ok()) {
                            Some(s) => {
                                let name = p.strip_prefix(dir.as_str()).unwrap_or(p).to_string();
                                m.tpls.insert(name, Entry { source: s, from_glob: true });
                            }
                            None => all = false,
                        }
                    }
                    m.glob = Some(pattern);
                    m.disk_dirty = false;
                    if all {
                        next_model = Some(m);
                    }
                }
            }
            _ => {}
        }

        let changes_registry = !matches!(op, Op::CloneSwap | Op::CloneKeep | Op::Restart | Op::DiskWrite { .. } | Op::DiskDelete { .. } | Op::DiskMkdir { .. });
        if !changes_registry {
            continue;
        }

        // ---- family graph: acceptance refinement against the reference graph model, *before*
        // anything is rendered (an accepted cycle would recurse without bound)
        if sc.graph_model {
            if let Some(c) = &next_model {
                let before = out.violations.len();
                crate::graph::check_acceptance(c, ok, r.as_ref().err(), i, stats, &mut out);
                if out.violations[before..].iter().any(|v| v.invariant == "invalid-graph-accepted") {
                    break 'ops;
                }
                let (h, nt) = crate::graph::graph_shape_hash(c);
                if nt {
                    stats.distinct.insert(h);
                    stats.inc("nontrivial_graphs");
                }
            }
            if ok {
                if let Some(c) = &next_model {
                    let gm = crate::graph::GraphModel::from_model(c);
                    let shape = gm.crash_shape();
                    if shape.is_none() && gm.has_component_cycle() {
                        stats.inc("probe_component_cycle_rendered_in_process");
                    }
                    if let Some(sh) = shape {
                        stats.inc(if sh.starts_with("include-inside") { "probe_f2_shape_state_reached" } else { "probe_f5_shape_state_reached" });
                        defer(sc, i, sh, &mut out);
                    }
                    renderable = shape.is_none() || sc.render_f2_states;
                }
            }
        }
        if sc.inherit_model && ok {
            if let Some(c) = &next_model {
                let cyc = crate::inherit::has_block_nesting_cycle(c);
                if cyc {
                    stats.inc("probe_f4_shape_state_reached");
                    defer(sc, i, "block-nesting-cycle-through-super", &mut out);
                }
                renderable = !cyc || sc.render_f2_states;
            }
        }

        // ---- observe
        let cur = obs_r(&t, stats, &mut out, renderable);
        for (k, v) in &cur {
            log.str(k);
            log.str(v);
        }

        if !ok {
            // failed call: everything exactly as before
            stats.inc("obs_compares");
            if let Some(d) = first_diff(&prev, &cur) {
                out.violations.push(Violation::new("C10", "failed-call-changed-state", format!("op {} ({}) returned Err({}) but: {}", i, op.kind(), engine::trunc(&norm(&format!("{}", r.as_ref().unwrap_err()), &root_str)), d)));
            }
            // had it already inserted something before failing?
            let inserted_before_failure = match op {
                Op::AddBatch { items } => items.len() > 1,
                Op::AddFiles { items, .. } => items.len() > 1,
                Op::LoadGlob { .. } | Op::FullReload { .. } => reads.len() > 1,
                _ => false,
            };
            if inserted_before_failure {
                nontrivial = true;
                stats.inc("probe_failed_op_with_possible_partial_insert");
            }
            if model.tpls.len() >= 2 {
                stats.inc("probe_rollback_with_existing_templates");
            }
            // acceptance must be a function of the resulting set, not of the history
            if let Some(m2) = &next_model {
                let dup = match op {
                    Op::AddBatch { items } => has_dup_names(items),
                    _ => false,
                };
                let reconfig = matches!(op, Op::SetDelimsLate { .. } | Op::SetPrefixesLate { .. });
                if !dup && !reconfig {
                    stats.inc("obs_compares");
                    if let Ok(_f) = build_fresh(m2, sc.fresh_seed ^ (i as u64) << 8, sc.hash_base) {
                        out.violations.push(Violation::new(
                            "C10",
                            "acceptance-depends-on-history",
                            format!("op {} ({}) was refused ({}) but a fresh instance accepts the same resulting set in one batch", i, op.kind(), engine::trunc(&norm(&format!("{}", r.as_ref().unwrap_err()), &root_str))),
                        ));
                    }
                    stats.inc("probe_parity_checked_on_failure");
                }
            }
        } else {
            // certain by construction: a name that is registered nowhere must be refused when
            // the template is added, wherever it is written (C07)
            if let Some(k) = &note.invalid {
                // (only for raw adds: a reload may legitimately not even list the broken file)
                // the marker must sit inside a variable or block tag (not in literal text or a
                // comment): minimisation must not be able to keep the class alive with junk
                let d = &sc.config.delims;
                let carries = |src: &str| {
                    ["no_such_filter", "no_such_test", "no_such_fn", "NoSuchComp", "nope.html"].iter().any(|m| {
                        src.match_indices(m).any(|(pos, _)| {
                            let before = &src[..pos];
                            let open = [d.vs.as_str(), d.bs.as_str()].iter().filter_map(|o| before.rfind(o)).max();
                            let Some(o) = open else { return false };
                            if before.rfind(d.cs.as_str()).map(|c| c > o).unwrap_or(false) {
                                return false;
                            }
                            let inside = &before[o..];
                            !inside.contains(d.ve.as_str()) && !inside.contains(d.be.as_str()) && !before.contains("raw")
                        })
                    })
                };
                let still_there = match op {
                    Op::AddRaw { source, .. } => carries(source),
                    // the carrier must be the last occurrence of its name in the batch
                    Op::AddBatch { items } => items.iter().enumerate().any(|(ix, (n, src))| carries(src) && !items[ix + 1..].iter().any(|(n2, _)| n2 == n)),
                    _ => false,
                };
                // ... and only while the delimiters are still the ones the sources were written
                // for (a late set_delimiters succeeds on an empty registry: tags become text)
                if k == "break-across-capture" && model.config.delims == sc.config.delims {
                    let has = |src: &str| src.contains("for zzi in [1, 2]") && (src.contains("break") || src.contains("continue")) && src.contains("endfor");
                    let there = match op {
                        Op::AddRaw { source, .. } => has(source),
                        Op::AddBatch { items } => items.iter().enumerate().any(|(ix, (n, src))| has(src) && !items[ix + 1..].iter().any(|(n2, _)| n2 == n)),
                        _ => false,
                    };
                    if there {
                        out.violations.push(Violation::new(
                            "C07",
                            "break-across-capture-accepted",
                            format!("op {} ({}): a template with break/continue inside a capture inside its loop was accepted (the jump would skip EndCapture)", i, op.kind()),
                        ));
                    }
                }
                if k.starts_with("unknown-") && still_there && model.config.delims == sc.config.delims {
                    out.violations.push(Violation::new(
                        "C07",
                        "unknown-reference-accepted-at-registration",
                        format!("op {} ({}) carries an {} reference (no_such_* / NoSuchComp / nope.html) but was accepted", i, op.kind(), k),
                    ));
                }
            }
            let Some(m2) = next_model else {
                // succeeded although the model could not follow (e.g. a non-UTF-8 read accepted)
                out.violations.push(Violation::new("C10", "accepted-unreadable-input", format!("op {} ({}) returned Ok but the model has no resulting set", i, op.kind())));
                break 'ops;
            };
            if note.replaces_dependency {
                nontrivial = true;
                stats.inc("probe_replaced_a_dependency");
            }
            if m2.tpls.len() < model.tpls.len() {
                stats.inc("probe_reload_removed_templates");
            }
            model = m2;
            stats.distinct_in("registry_states", model_hash(&model));
            // equivalent to a fresh instance given the resulting set in one batch
            stats.inc("obs_compares");
            match build_fresh(&model, sc.fresh_seed ^ (i as u64) << 8, sc.hash_base) {
                Err(e) => {
                    out.violations.push(Violation::new("C10", "fresh-instance-refuses-accepted-set", format!("op {} ({}) succeeded but a fresh instance given the resulting {} templates in one batch fails: {}", i, op.kind(), model.tpls.len(), engine::trunc(&e))));
                }
                Ok(f) => {
                    let fo = obs_fresh(&f, stats, &mut out, renderable);
                    if let Some(d) = first_diff(&cur, &fo) {
                        out.violations.push(Violation::new("C10", "differs-from-fresh-instance", format!("after op {} ({}), long-lived vs fresh: {}", i, op.kind(), d)));
                    }
                }
            }
            if renderable {
                family_check(sc, &model, &t, &ctxs, i, stats, &mut out);
                if sc.graph_model {
                    crate::graph::check_outputs(&model, &t, i, stats, &mut out);
                }
            }
            if sc.inherit_model {
                if let Some((h, nt)) = crate::inherit::shape_hash(&model) {
                    if nt {
                        let mut f = Fnv::new();
                        f.u64(h);
                        f.str(sc.ops.first().map(|o| o.kind()).unwrap_or(""));
                        f.u64(sc.ops.len().min(6) as u64);
                        stats.distinct.insert(f.get());
                        stats.inc("nontrivial_forests");
                    }
                }
            }
        }
        prev = cur;
        if out.violations.len() > 8 {
            break;
        }
    }

    if let Some((orig, orig_obs, orig_renderable)) = original {
        let o = obs_r(&orig, stats, &mut out, orig_renderable);
        stats.inc("obs_compares");
        if let Some(d) = first_diff(&orig_obs, &o) {
            out.violations.push(Violation::new("C10", "clone-shares-state-with-original", d));
        }
    }
    if let Some(r) = &root {
        let _ = std::fs::remove_dir_all(r);
        tera::verif::set_fault_point_hook(None);
    }
    if nontrivial || failed_ops > 0 {
        shape.u64(model.tpls.len() as u64);
        if nontrivial {
            stats.distinct.insert(shape.get());
            stats.inc("nontrivial_histories");
        }
    }
    let _ = prop;
    stats.sample(4, || {
        serde_json::json!({
            "family": sc.family,
            "ops": sc.ops.iter().take(8).map(|o| match o {
                Op::AddRaw{name, source} => serde_json::json!({"add_raw": name, "source": engine::trunc(source)}),
                Op::AddBatch{items} => serde_json::json!({"add_batch": items.iter().map(|(n,_)| n.clone()).collect::<Vec<_>>()}),
                other => serde_json::json!(other.kind()),
            }).collect::<Vec<_>>(),
            "n_ops": sc.ops.len(),
            "invalid_kinds": sc.notes.iter().filter_map(|n| n.invalid.clone()).collect::<Vec<_>>(),
            "final_templates": model.tpls.len(),
        })
    });
    out.fingerprint = log.get();
    out
}

/// Record the history up to op `i` as a scenario for the sacrificial child process.
fn defer(sc: &RegScenario, i: usize, shape: &str, out: &mut Outcome) {
    if sc.render_f2_states || out.deferred.iter().filter(|d| d.get("crash_shape").and_then(|s| s.as_str()) == Some(shape)).count() >= 1 {
        return;
    }
    let mut d = sc.clone();
    d.ops.truncate(i + 1);
    d.notes.truncate(i + 1);
    d.render_f2_states = true;
    d.crash_shape = shape.to_string();
    out.deferred.push(serde_json::to_value(crate::Scn::Reg(d)).unwrap());
}

fn model_hash(m: &Model) -> u64 {
    let mut f = Fnv::new();
    for (k, e) in &m.tpls {
        f.str(k);
        f.str(&e.source);
        f.u64(e.from_glob as u64);
    }
    f.str(&format!("{:?}", m.config.autoescape));
    f.get()
}

fn family_check(sc: &RegScenario, model: &Model, t: &Tera, ctxs: &[Context], i: usize, stats: &mut Stats, out: &mut Outcome) {
    if sc.inherit_model {
        crate::inherit::check(sc, model, t, ctxs, i, stats, out);
    }
}

// ------------------------------------------------------------------------------------------------
// shrinking
// ------------------------------------------------------------------------------------------------

pub fn shrink_candidates(sc: &RegScenario) -> Vec<RegScenario> {
    let mut out = Vec::new();
    let drop_note = |c: &mut RegScenario, i: usize| {
        if i < c.notes.len() {
            c.notes.remove(i);
        }
    };
    // truncate the history after each prefix (the violation is detected at some step)
    for n in (1..sc.ops.len()).rev() {
        let mut c = sc.clone();
        c.ops.truncate(n);
        c.notes.truncate(n);
        out.push(c);
        if out.len() > 6 {
            break;
        }
    }
    // drop single ops
    for i in 0..sc.ops.len() {
        let mut c = sc.clone();
        c.ops.remove(i);
        drop_note(&mut c, i);
        out.push(c);
    }
    // split batches / drop batch items
    for (i, op) in sc.ops.iter().enumerate() {
        if let Op::AddBatch { items } = op {
            if items.len() > 1 {
                for k in 0..items.len() {
                    let mut c = sc.clone();
                    let mut it = items.clone();
                    it.remove(k);
                    c.ops[i] = Op::AddBatch { items: it };
                    out.push(c);
                }
            }
        }
    }
    // contexts
    for ci in 0..sc.contexts.len() {
        if !sc.contexts[ci].0.is_empty() {
            let mut c = sc.clone();
            c.contexts[ci].0.clear();
            out.push(c);
        }
    }
    if sc.contexts.len() > 1 {
        let mut c = sc.clone();
        c.contexts.truncate(1);
        out.push(c);
    }
    if sc.config.custom {
        let mut c = sc.clone();
        c.config.custom = false;
        out.push(c);
    }
    if !sc.config.global.0.is_empty() {
        let mut c = sc.clone();
        c.config.global.0.clear();
        out.push(c);
    }
    // probe
    if sc.probe.comps.len() > 0 {
        let mut c = sc.clone();
        c.probe.comps.clear();
        out.push(c);
    }
    if sc.probe.blocks.len() > 0 {
        let mut c = sc.clone();
        c.probe.blocks.clear();
        out.push(c);
    }
    // sources
    for (i, op) in sc.ops.iter().enumerate() {
        match op {
            Op::AddRaw { name, source } => {
                for cand in crate::minimize::text_chunks(source) {
                    let mut c = sc.clone();
                    c.ops[i] = Op::AddRaw { name: name.clone(), source: cand };
                    out.push(c);
                }
            }
            Op::AddBatch { items } => {
                for (k, (_, s)) in items.iter().enumerate() {
                    for cand in crate::minimize::text_chunks(s).into_iter().take(6) {
                        let mut c = sc.clone();
                        let mut it = items.clone();
                        it[k].1 = cand;
                        c.ops[i] = Op::AddBatch { items: it };
                        out.push(c);
                    }
                }
            }
            _ => {}
        }
    }
    out
}
