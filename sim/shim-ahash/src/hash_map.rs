use std::borrow::Borrow;
use std::collections::hash_map::{IntoKeys, IntoValues};
use std::collections::{hash_map, HashMap};
use std::fmt::{self, Debug};
use std::hash::{BuildHasher, Hash};
use std::iter::FromIterator;
use std::ops::{Deref, DerefMut, Index};
use std::panic::UnwindSafe;

#[cfg(feature = "serde")]
use serde::{
    de::{Deserialize, Deserializer},
    ser::{Serialize, Serializer},
};

use crate::RandomState;

/// A [`HashMap`](std::collections::HashMap) using [`RandomState`](crate::RandomState) to hash the items.
/// (Requires the `std` feature to be enabled.)
#[derive(Clone)]
pub struct AHashMap<K, V, S = crate::RandomState>(HashMap<K, V, S>);

impl<K, V> From<HashMap<K, V, crate::RandomState>> for AHashMap<K, V> {
    fn from(item: HashMap<K, V, crate::RandomState>) -> Self {
        AHashMap(item)
    }
}

impl<K, V, const N: usize> From<[(K, V); N]> for AHashMap<K, V>
where
    K: Eq + Hash,
{
    /// # Examples
    ///
    /// ```
    /// use ahash::AHashMap;
    ///
    /// let map1 = AHashMap::from([(1, 2), (3, 4)]);
    /// let map2: AHashMap<_, _> = [(1, 2), (3, 4)].into();
    /// assert_eq!(map1, map2);
    /// ```
    fn from(arr: [(K, V); N]) -> Self {
        Self::from_iter(arr)
    }
}

impl<K, V> Into<HashMap<K, V, crate::RandomState>> for AHashMap<K, V> {
    fn into(self) -> HashMap<K, V, crate::RandomState> {
        self.0
    }
}

impl<K, V> AHashMap<K, V, RandomState> {
    /// This creates a hashmap using [RandomState::new] which obtains its keys from [RandomSource].
    /// See the documentation in [RandomSource] for notes about key strength.
    pub fn new() -> Self {
        AHashMap(HashMap::with_hasher(RandomState::new()))
    }

    /// This creates a hashmap with the specified capacity using [RandomState::new].
    /// See the documentation in [RandomSource] for notes about key strength.
    pub fn with_capacity(capacity: usize) -> Self {
        AHashMap(HashMap::with_capacity_and_hasher(capacity, RandomState::new()))
    }
}

impl<K, V, S> AHashMap<K, V, S>
where
    S: BuildHasher,
{
    pub fn with_hasher(hash_builder: S) -> Self {
        AHashMap(HashMap::with_hasher(hash_builder))
    }

    pub fn with_capacity_and_hasher(capacity: usize, hash_builder: S) -> Self {
        AHashMap(HashMap::with_capacity_and_hasher(capacity, hash_builder))
    }
}

impl<K, V, S> AHashMap<K, V, S>
where
    K: Hash + Eq,
    S: BuildHasher,
{
    /// Returns a reference to the value corresponding to the key.
    ///
    /// The key may be any borrowed form of the map's key type, but
    /// [`Hash`] and [`Eq`] on the borrowed form *must* match those for
    /// the key type.
    ///
    /// # Examples
    ///
    /// ```
    /// use std::collections::HashMap;
    ///
    /// let mut map = HashMap::new();
    /// map.insert(1, "a");
    /// assert_eq!(map.get(&1), Some(&"a"));
    /// assert_eq!(map.get(&2), None);
    /// ```
    #[inline]
    pub fn get<Q: ?Sized>(&self, k: &Q) -> Option<&V>
    where
        K: Borrow<Q>,
        Q: Hash + Eq,
    {
        self.0.get(k)
    }

    /// Returns the key-value pair corresponding to the supplied key.
    ///
    /// The supplied key may be any borrowed form of the map's key type, but
    /// [`Hash`] and [`Eq`] on the borrowed form *must* match those for
    /// the key type.
    ///
    /// # Examples
    ///
    /// ```
    /// use std::collections::HashMap;
    ///
    /// let mut map = HashMap::new();
    /// map.insert(1, "a");
    /// assert_eq!(map.get_key_value(&1), Some((&1, &"a")));
    /// assert_eq!(map.get_key_value(&2), None);
    /// ```
    #[inline]
    pub fn get_key_value<Q: ?Sized>(&self, k: &Q) -> Option<(&K, &V)>
    where
        K: Borrow<Q>,
        Q: Hash + Eq,
    {
        self.0.get_key_value(k)
    }

    /// Returns a mutable reference to the value corresponding to the key.
    ///
    /// The key may be any borrowed form of the map's key type, but
    /// [`Hash`] and [`Eq`] on the borrowed form *must* match those for
    /// the key type.
    ///
    /// # Examples
    ///
    /// ```
    /// use std::collections::HashMap;
    ///
    /// let mut map = HashMap::new();
    /// map.insert(1, "a");
    /// if let Some(x) = map.get_mut(&1) {
    ///     *x = "b";
    /// }
    /// assert_eq!(map[&1], "b");
    /// ```
    #[inline]
    pub fn get_mut<Q: ?Sized>(&mut self, k: &Q) -> Option<&mut V>
    where
        K: Borrow<Q>,
        Q: Hash + Eq,
    {
        self.0.get_mut(k)
    }

    /// Inserts a key-value pair into the map.
    ///
    /// If the map did not have this key present, [`None`] is returned.
    ///
    /// If the map did have this key present, the value is updated, and the old
    /// value is returned. The key is not updated, though; this matters for
    /// types that can be `==` without being identical. See the [module-level
    /// documentation] for more.
    ///
    /// # Examples
    ///
    /// ```
    /// use std::collections::HashMap;
    ///
    /// let mut map = HashMap::new();
    /// assert_eq!(map.insert(37, "a"), None);
    /// assert_eq!(map.is_empty(), false);
    ///
    /// map.insert(37, "b");
    /// assert_eq!(map.insert(37, "c"), Some("b"));
    /// assert_eq!(map[&37], "c");
    /// ```
    #[inline]
    pub fn insert(&mut self, k: K, v: V) -> Option<V> {
        self.0.insert(k, v)
    }

    /// Creates a consuming iterator visiting all the keys in arbitrary order.
    /// The map cannot be used after calling this.
    /// The iterator element type is `K`.
    ///
    /// # Examples
    ///
    /// ```
    /// use std::collections::HashMap;
    ///
    /// let map = HashMap::from([
    ///     ("a", 1),
    ///     ("b", 2),
    ///     ("c", 3),
    /// ]);
    ///
    /// let mut vec: Vec<&str> = map.into_keys().collect();
    /// // The `IntoKeys` iterator produces keys in arbitrary order, so the
    /// // keys must be sorted to test them against a sorted array.
    /// vec.sort_unstable();
    /// assert_eq!(vec, ["a", "b", "c"]);
    /// ```
    ///
    /// # Performance
    ///
    /// In the current implementation, iterating over keys takes O(capacity) time
    /// instead of O(len) because it internally visits empty buckets too.
    #[inline]
    pub fn into_keys(self) -> IntoKeys<K, V> {
        self.0.into_keys()
    }

    /// Creates a consuming iterator visiting all the values in arbitrary order.
    /// The map cannot be used after calling this.
    /// The iterator element type is `V`.
    ///
    /// # Examples
    ///
    /// ```
    /// use std::collections::HashMap;
    ///
    /// let map = HashMap::from([
    ///     ("a", 1),
    ///     ("b", 2),
    ///     ("c", 3),
    /// ]);
    ///
    /// let mut vec: Vec<i32> = map.into_values().collect();
    /// // The `IntoValues` iterator produces values in arbitrary order, so
    /// // the values must be sorted to test them against a sorted array.
    /// vec.sort_unstable();
    /// assert_eq!(vec, [1, 2, 3]);
    /// ```
    ///
    /// # Performance
    ///
    /// In the current implementation, iterating over values takes O(capacity) time
    /// instead of O(len) because it internally visits empty buckets too.
    #[inline]
    pub fn into_values(self) -> IntoValues<K, V> {
        self.0.into_values()
    }

    /// Removes a key from the map, returning the value at the key if the key
    /// was previously in the map.
    ///
    /// The key may be any borrowed form of the map's key type, but
    /// [`Hash`] and [`Eq`] on the borrowed form *must* match those for
    /// the key type.
    ///
    /// # Examples
    ///
    /// ```
    /// use std::collections::HashMap;
    ///
    /// let mut map = HashMap::new();
    /// map.insert(1, "a");
    /// assert_eq!(map.remove(&1), Some("a"));
    /// assert_eq!(map.remove(&1), None);
    /// ```
    #[inline]
    pub fn remove<Q: ?Sized>(&mut self, k: &Q) -> Option<V>
    where
        K: Borrow<Q>,
        Q: Hash + Eq,
    {
        self.0.remove(k)
    }
}

impl<K, V, S> Deref for AHashMap<K, V, S> {
    type Target = HashMap<K, V, S>;
    fn deref(&self) -> &Self::Target {
        &self.0
    }
}

impl<K, V, S> DerefMut for AHashMap<K, V, S> {
    fn deref_mut(&mut self) -> &mut Self::Target {
        &mut self.0
    }
}

impl<K, V, S> UnwindSafe for AHashMap<K, V, S>
where
    K: UnwindSafe,
    V: UnwindSafe,
{
}

impl<K, V, S> PartialEq for AHashMap<K, V, S>
where
    K: Eq + Hash,
    V: PartialEq,
    S: BuildHasher,
{
    fn eq(&self, other: &AHashMap<K, V, S>) -> bool {
        self.0.eq(&other.0)
    }
}

impl<K, V, S> Eq for AHashMap<K, V, S>
where
    K: Eq + Hash,
    V: Eq,
    S: BuildHasher,
{
}

impl<K, Q: ?Sized, V, S> Index<&Q> for AHashMap<K, V, S>
where
    K: Eq + Hash + Borrow<Q>,
    Q: Eq + Hash,
    S: BuildHasher,
{
    type Output = V;

    /// Returns a reference to the value corresponding to the supplied key.
    ///
    /// # Panics
    ///
    /// Panics if the key is not present in the `HashMap`.
    #[inline]
    fn index(&self, key: &Q) -> &V {
        self.0.index(key)
    }
}

impl<K, V, S> Debug for AHashMap<K, V, S>
where
    K: Debug,
    V: Debug,
    S: BuildHasher,
{
    fn fmt(&self, fmt: &mut fmt::Formatter) -> fmt::Result {
        self.0.fmt(fmt)
    }
}

impl<K, V> FromIterator<(K, V)> for AHashMap<K, V, RandomState>
where
    K: Eq + Hash,
{
    /// This creates a hashmap from the provided iterator using [RandomState::new].
    /// See the documentation in [RandomSource] for notes about key strength.
    fn from_iter<T: IntoIterator<Item = (K, V)>>(iter: T) -> Self {
        let mut inner = HashMap::with_hasher(RandomState::new());
        inner.extend(iter);
        AHashMap(inner)
    }
}

impl<'a, K, V, S> IntoIterator for &'a AHashMap<K, V, S> {
    type Item = (&'a K, &'a V);
    type IntoIter = hash_map::Iter<'a, K, V>;
    fn into_iter(self) -> Self::IntoIter {
        (&self.0).iter()
    }
}

impl<'a, K, V, S> IntoIterator for &'a mut AHashMap<K, V, S> {
    type Item = (&'a K, &'a mut V);
    type IntoIter = hash_map::IterMut<'a, K, V>;
    fn into_iter(self) -> Self::IntoIter {
        (&mut self.0).iter_mut()
    }
}

impl<K, V, S> IntoIterator for AHashMap<K, V, S> {
    type Item = (K, V);
    type IntoIter = hash_map::IntoIter<K, V>;
    fn into_iter(self) -> Self::IntoIter {
        self.0.into_iter()
    }
}

impl<K, V, S> Extend<(K, V)> for AHashMap<K, V, S>
where
    K: Eq + Hash,
    S: BuildHasher,
{
    #[inline]
    fn extend<T: IntoIterator<Item = (K, V)>>(&mut self, iter: T) {
        self.0.extend(iter)
    }
}

impl<'a, K, V, S> Extend<(&'a K, &'a V)> for AHashMap<K, V, S>
where
    K: Eq + Hash + Copy + 'a,
    V: Copy + 'a,
    S: BuildHasher,
{
    #[inline]
    fn extend<T: IntoIterator<Item = (&'a K, &'a V)>>(&mut self, iter: T) {
        self.0.extend(iter)
    }
}

/// NOTE: For safety this trait impl is only available if either of the flags `runtime-rng` (on by default) or
/// `compile-time-rng` are enabled. This is to prevent weakly keyed maps from being accidentally created. Instead one of
/// constructors for [RandomState] must be used.
#[cfg(any(feature = "compile-time-rng", feature = "runtime-rng", feature = "no-rng"))]
impl<K, V> Default for AHashMap<K, V, RandomState> {
    #[inline]
    fn default() -> AHashMap<K, V, RandomState> {
        AHashMap(HashMap::default())
    }
}

#[cfg(feature = "serde")]
impl<K, V> Serialize for AHashMap<K, V>
where
    K: Serialize + Eq + Hash,
    V: Serialize,
{
    fn serialize<S: Serializer>(&self, serializer: S) -> Result<S::Ok, S::Error> {
        self.deref().serialize(serializer)
    }
}

#[cfg(feature = "serde")]
impl<'de, K, V> Deserialize<'de> for AHashMap<K, V>
where
    K: Deserialize<'de> + Eq + Hash,
    V: Deserialize<'de>,
{
    fn deserialize<D: Deserializer<'de>>(deserializer: D) -> Result<Self, D::Error> {
        let hash_map = HashMap::deserialize(deserializer);
        hash_map.map(|hash_map| Self(hash_map))
    }

    fn deserialize_in_place<D: Deserializer<'de>>(deserializer: D, place: &mut Self) -> Result<(), D::Error> {
        use serde::de::{MapAccess, Visitor};

        struct MapInPlaceVisitor<'a, K: 'a, V: 'a>(&'a mut AHashMap<K, V>);

        impl<'a, 'de, K, V> Visitor<'de> for MapInPlaceVisitor<'a, K, V>
        where
            K: Deserialize<'de> + Eq + Hash,
            V: Deserialize<'de>,
        {
            type Value = ();

            fn expecting(&self, formatter: &mut fmt::Formatter) -> fmt::Result {
                formatter.write_str("a map")
            }

            fn visit_map<A>(self, mut map: A) -> Result<Self::Value, A::Error>
            where
                A: MapAccess<'de>,
            {
                self.0.clear();
                self.0.reserve(map.size_hint().unwrap_or(0).min(4096));

                while let Some((key, value)) = map.next_entry()? {
                    self.0.insert(key, value);
                }

                Ok(())
            }
        }

        deserializer.deserialize_map(MapInPlaceVisitor(place))
    }
}

#[cfg(test)]
mod test {
    use super::*;
    #[test]
    fn test_borrow() {
        let mut map: AHashMap<String, String> = AHashMap::new();
        map.insert("foo".to_string(), "Bar".to_string());
        map.insert("Bar".to_string(), map.get("foo").unwrap().to_owned());
    }

    #[cfg(feature = "serde")]
    #[test]
    fn test_serde() {
        let mut map = AHashMap::new();
        map.insert("for".to_string(), 0);
        map.insert("bar".to_string(), 1);
        let mut serialization = serde_json::to_string(&map).unwrap();
        let mut deserialization: AHashMap<String, u64> = serde_json::from_str(&serialization).unwrap();
        assert_eq!(deserialization, map);

        map.insert("baz".to_string(), 2);
        serialization = serde_json::to_string(&map).unwrap();
        let mut deserializer = serde_json::Deserializer::from_str(&serialization);
        AHashMap::deserialize_in_place(&mut deserializer, &mut deserialization).unwrap();
        assert_eq!(deserialization, map);
    }
}
