//! Stand-in for `ahash` whose `RandomState` is keyed by the simulator.
//!
//! `AHashMap`/`AHashSet` are the unmodified wrappers from ahash 0.8.12 around the std collections.
//! `RandomState::new()` draws its key from a thread-local stream controlled through [`sim`]:
//! * `Mode::PerInstance` (default, faithful to ahash and to std's `RandomState`): every new map gets
//!   a new key, so two maps with equal content iterate in different orders;
//! * `Mode::Fixed`: every map gets the same key.
//! Cloning a map clones its key, as with the real crate.
#![allow(clippy::all)]
use std::cell::Cell;
use std::hash::{BuildHasher, Hasher};

mod hash_map;
mod hash_set;

pub use crate::hash_map::AHashMap;
pub use crate::hash_set::AHashSet;

pub type HashMap<K, V> = AHashMap<K, V>;
pub type HashSet<K> = AHashSet<K>;

thread_local! {
    static MODE_FIXED: Cell<bool> = const { Cell::new(false) };
    static BASE: Cell<u64> = const { Cell::new(0x9E37_79B9_7F4A_7C15) };
    static COUNTER: Cell<u64> = const { Cell::new(0) };
}

/// Simulator control of the hash-key stream of the current thread.
pub mod sim {
    use super::*;

    #[derive(Clone, Copy, Debug, PartialEq, Eq)]
    pub enum Mode {
        PerInstance,
        Fixed,
    }

    /// Restart the key stream: mode, base key, instance counter back to zero.
    pub fn reset(mode: Mode, base: u64) {
        MODE_FIXED.with(|m| m.set(mode == Mode::Fixed));
        BASE.with(|b| b.set(base));
        COUNTER.with(|c| c.set(0));
    }

    /// Number of `RandomState::new()` calls since the last `reset`.
    pub fn instances() -> u64 {
        COUNTER.with(|c| c.get())
    }
}

#[inline]
fn splitmix64(mut x: u64) -> u64 {
    x = x.wrapping_add(0x9E37_79B9_7F4A_7C15);
    let mut z = x;
    z = (z ^ (z >> 30)).wrapping_mul(0xBF58_476D_1CE4_E5B9);
    z = (z ^ (z >> 27)).wrapping_mul(0x94D0_49BB_1331_11EB);
    z ^ (z >> 31)
}

#[derive(Clone, Debug)]
pub struct RandomState {
    key: u64,
}

impl RandomState {
    #[inline]
    pub fn new() -> RandomState {
        let n = COUNTER.with(|c| {
            let n = c.get();
            c.set(n.wrapping_add(1));
            n
        });
        let base = BASE.with(|b| b.get());
        let key = if MODE_FIXED.with(|m| m.get()) {
            splitmix64(base)
        } else {
            splitmix64(base ^ n.wrapping_mul(0xD6E8_FEB8_6659_FD93))
        };
        RandomState { key }
    }

    pub fn with_seed(key: usize) -> RandomState {
        RandomState { key: splitmix64(key as u64) }
    }
}

impl Default for RandomState {
    #[inline]
    fn default() -> Self {
        Self::new()
    }
}

/// FxHash-style mixer: fast, keyed, and — unlike SipHash — cheap enough that the simulated build is
/// not slower than the shipped one. Quality is irrelevant here; only that iteration order is a
/// function of (key, content).
#[derive(Clone)]
pub struct SimHasher {
    state: u64,
}

impl Hasher for SimHasher {
    #[inline]
    fn write(&mut self, bytes: &[u8]) {
        let mut chunks = bytes.chunks_exact(8);
        for c in &mut chunks {
            let mut b = [0u8; 8];
            b.copy_from_slice(c);
            self.write_u64(u64::from_le_bytes(b));
        }
        let rem = chunks.remainder();
        if !rem.is_empty() {
            let mut b = [0u8; 8];
            b[..rem.len()].copy_from_slice(rem);
            self.write_u64(u64::from_le_bytes(b) ^ ((rem.len() as u64) << 56));
        }
    }
    #[inline]
    fn write_u8(&mut self, i: u8) {
        self.write_u64(i as u64)
    }
    #[inline]
    fn write_u32(&mut self, i: u32) {
        self.write_u64(i as u64)
    }
    #[inline]
    fn write_u64(&mut self, i: u64) {
        self.state = (self.state.rotate_left(23) ^ i).wrapping_mul(0x2545_F491_4F6C_DD1D);
    }
    #[inline]
    fn write_usize(&mut self, i: usize) {
        self.write_u64(i as u64)
    }
    #[inline]
    fn finish(&self) -> u64 {
        splitmix64(self.state)
    }
}

impl BuildHasher for RandomState {
    type Hasher = SimHasher;
    #[inline]
    fn build_hasher(&self) -> SimHasher {
        SimHasher { state: self.key }
    }
}
