use crate::RandomState;
use std::collections::{hash_set, HashSet};
use std::fmt::{self, Debug};
use std::hash::{BuildHasher, Hash};
use std::iter::FromIterator;
use std::ops::{BitAnd, BitOr, BitXor, Deref, DerefMut, Sub};

#[cfg(feature = "serde")]
use serde::{
    de::{Deserialize, Deserializer},
    ser::{Serialize, Serializer},
};

/// A [`HashSet`](std::collections::HashSet) using [`RandomState`](crate::RandomState) to hash the items.
/// (Requires the `std` feature to be enabled.)
#[derive(Clone)]
pub struct AHashSet<T, S = RandomState>(HashSet<T, S>);

impl<T> From<HashSet<T, RandomState>> for AHashSet<T> {
    fn from(item: HashSet<T, RandomState>) -> Self {
        AHashSet(item)
    }
}

impl<T, const N: usize> From<[T; N]> for AHashSet<T>
where
    T: Eq + Hash,
{
    /// # Examples
    ///
    /// ```
    /// use ahash::AHashSet;
    ///
    /// let set1 = AHashSet::from([1, 2, 3, 4]);
    /// let set2: AHashSet<_> = [1, 2, 3, 4].into();
    /// assert_eq!(set1, set2);
    /// ```
    fn from(arr: [T; N]) -> Self {
        Self::from_iter(arr)
    }
}

impl<T> Into<HashSet<T, RandomState>> for AHashSet<T> {
    fn into(self) -> HashSet<T, RandomState> {
        self.0
    }
}

impl<T> AHashSet<T, RandomState> {
    /// This creates a hashset using [RandomState::new].
    /// See the documentation in [RandomSource] for notes about key strength.
    pub fn new() -> Self {
        AHashSet(HashSet::with_hasher(RandomState::new()))
    }

    /// This craetes a hashset with the specified capacity using [RandomState::new].
    /// See the documentation in [RandomSource] for notes about key strength.
    pub fn with_capacity(capacity: usize) -> Self {
        AHashSet(HashSet::with_capacity_and_hasher(capacity, RandomState::new()))
    }
}

impl<T, S> AHashSet<T, S>
where
    S: BuildHasher,
{
    pub fn with_hasher(hash_builder: S) -> Self {
        AHashSet(HashSet::with_hasher(hash_builder))
    }

    pub fn with_capacity_and_hasher(capacity: usize, hash_builder: S) -> Self {
        AHashSet(HashSet::with_capacity_and_hasher(capacity, hash_builder))
    }
}

impl<T, S> Deref for AHashSet<T, S> {
    type Target = HashSet<T, S>;
    fn deref(&self) -> &Self::Target {
        &self.0
    }
}

impl<T, S> DerefMut for AHashSet<T, S> {
    fn deref_mut(&mut self) -> &mut Self::Target {
        &mut self.0
    }
}

impl<T, S> PartialEq for AHashSet<T, S>
where
    T: Eq + Hash,
    S: BuildHasher,
{
    fn eq(&self, other: &AHashSet<T, S>) -> bool {
        self.0.eq(&other.0)
    }
}

impl<T, S> Eq for AHashSet<T, S>
where
    T: Eq + Hash,
    S: BuildHasher,
{
}

impl<T, S> BitOr<&AHashSet<T, S>> for &AHashSet<T, S>
where
    T: Eq + Hash + Clone,
    S: BuildHasher + Default,
{
    type Output = AHashSet<T, S>;

    /// Returns the union of `self` and `rhs` as a new `AHashSet<T, S>`.
    ///
    /// # Examples
    ///
    /// ```
    /// use ahash::AHashSet;
    ///
    /// let a: AHashSet<_> = vec![1, 2, 3].into_iter().collect();
    /// let b: AHashSet<_> = vec![3, 4, 5].into_iter().collect();
    ///
    /// let set = &a | &b;
    ///
    /// let mut i = 0;
    /// let expected = [1, 2, 3, 4, 5];
    /// for x in &set {
    ///     assert!(expected.contains(x));
    ///     i += 1;
    /// }
    /// assert_eq!(i, expected.len());
    /// ```
    fn bitor(self, rhs: &AHashSet<T, S>) -> AHashSet<T, S> {
        AHashSet(self.0.bitor(&rhs.0))
    }
}

impl<T, S> BitAnd<&AHashSet<T, S>> for &AHashSet<T, S>
where
    T: Eq + Hash + Clone,
    S: BuildHasher + Default,
{
    type Output = AHashSet<T, S>;

    /// Returns the intersection of `self` and `rhs` as a new `AHashSet<T, S>`.
    ///
    /// # Examples
    ///
    /// ```
    /// use ahash::AHashSet;
    ///
    /// let a: AHashSet<_> = vec![1, 2, 3].into_iter().collect();
    /// let b: AHashSet<_> = vec![2, 3, 4].into_iter().collect();
    ///
    /// let set = &a & &b;
    ///
    /// let mut i = 0;
    /// let expected = [2, 3];
    /// for x in &set {
    ///     assert!(expected.contains(x));
    ///     i += 1;
    /// }
    /// assert_eq!(i, expected.len());
    /// ```
    fn bitand(self, rhs: &AHashSet<T, S>) -> AHashSet<T, S> {
        AHashSet(self.0.bitand(&rhs.0))
    }
}

impl<T, S> BitXor<&AHashSet<T, S>> for &AHashSet<T, S>
where
    T: Eq + Hash + Clone,
    S: BuildHasher + Default,
{
    type Output = AHashSet<T, S>;

    /// Returns the symmetric difference of `self` and `rhs` as a new `AHashSet<T, S>`.
    ///
    /// # Examples
    ///
    /// ```
    /// use ahash::AHashSet;
    ///
    /// let a: AHashSet<_> = vec![1, 2, 3].into_iter().collect();
    /// let b: AHashSet<_> = vec![3, 4, 5].into_iter().collect();
    ///
    /// let set = &a ^ &b;
    ///
    /// let mut i = 0;
    /// let expected = [1, 2, 4, 5];
    /// for x in &set {
    ///     assert!(expected.contains(x));
    ///     i += 1;
    /// }
    /// assert_eq!(i, expected.len());
    /// ```
    fn bitxor(self, rhs: &AHashSet<T, S>) -> AHashSet<T, S> {
        AHashSet(self.0.bitxor(&rhs.0))
    }
}

impl<T, S> Sub<&AHashSet<T, S>> for &AHashSet<T, S>
where
    T: Eq + Hash + Clone,
    S: BuildHasher + Default,
{
    type Output = AHashSet<T, S>;

    /// Returns the difference of `self` and `rhs` as a new `AHashSet<T, S>`.
    ///
    /// # Examples
    ///
    /// ```
    /// use ahash::AHashSet;
    ///
    /// let a: AHashSet<_> = vec![1, 2, 3].into_iter().collect();
    /// let b: AHashSet<_> = vec![3, 4, 5].into_iter().collect();
    ///
    /// let set = &a - &b;
    ///
    /// let mut i = 0;
    /// let expected = [1, 2];
    /// for x in &set {
    ///     assert!(expected.contains(x));
    ///     i += 1;
    /// }
    /// assert_eq!(i, expected.len());
    /// ```
    fn sub(self, rhs: &AHashSet<T, S>) -> AHashSet<T, S> {
        AHashSet(self.0.sub(&rhs.0))
    }
}

impl<T, S> Debug for AHashSet<T, S>
where
    T: Debug,
    S: BuildHasher,
{
    fn fmt(&self, fmt: &mut fmt::Formatter<'_>) -> fmt::Result {
        self.0.fmt(fmt)
    }
}

impl<T> FromIterator<T> for AHashSet<T, RandomState>
where
    T: Eq + Hash,
{
    /// This creates a hashset from the provided iterator using [RandomState::new].
    /// See the documentation in [RandomSource] for notes about key strength.
    #[inline]
    fn from_iter<I: IntoIterator<Item = T>>(iter: I) -> AHashSet<T> {
        let mut inner = HashSet::with_hasher(RandomState::new());
        inner.extend(iter);
        AHashSet(inner)
    }
}

impl<'a, T, S> IntoIterator for &'a AHashSet<T, S> {
    type Item = &'a T;
    type IntoIter = hash_set::Iter<'a, T>;
    fn into_iter(self) -> Self::IntoIter {
        (&self.0).iter()
    }
}

impl<T, S> IntoIterator for AHashSet<T, S> {
    type Item = T;
    type IntoIter = hash_set::IntoIter<T>;
    fn into_iter(self) -> Self::IntoIter {
        self.0.into_iter()
    }
}

impl<T, S> Extend<T> for AHashSet<T, S>
where
    T: Eq + Hash,
    S: BuildHasher,
{
    #[inline]
    fn extend<I: IntoIterator<Item = T>>(&mut self, iter: I) {
        self.0.extend(iter)
    }
}

impl<'a, T, S> Extend<&'a T> for AHashSet<T, S>
where
    T: 'a + Eq + Hash + Copy,
    S: BuildHasher,
{
    #[inline]
    fn extend<I: IntoIterator<Item = &'a T>>(&mut self, iter: I) {
        self.0.extend(iter)
    }
}

/// NOTE: For safety this trait impl is only available available if either of the flags `runtime-rng` (on by default) or
/// `compile-time-rng` are enabled. This is to prevent weakly keyed maps from being accidentally created. Instead one of
/// constructors for [RandomState] must be used.
#[cfg(any(feature = "compile-time-rng", feature = "runtime-rng", feature = "no-rng"))]
impl<T> Default for AHashSet<T, RandomState> {
    /// Creates an empty `AHashSet<T, S>` with the `Default` value for the hasher.
    #[inline]
    fn default() -> AHashSet<T, RandomState> {
        AHashSet(HashSet::default())
    }
}

#[cfg(feature = "serde")]
impl<T> Serialize for AHashSet<T>
where
    T: Serialize + Eq + Hash,
{
    fn serialize<S: Serializer>(&self, serializer: S) -> Result<S::Ok, S::Error> {
        self.deref().serialize(serializer)
    }
}

#[cfg(feature = "serde")]
impl<'de, T> Deserialize<'de> for AHashSet<T>
where
    T: Deserialize<'de> + Eq + Hash,
{
    fn deserialize<D: Deserializer<'de>>(deserializer: D) -> Result<Self, D::Error> {
        let hash_set = HashSet::deserialize(deserializer);
        hash_set.map(|hash_set| Self(hash_set))
    }

    fn deserialize_in_place<D: Deserializer<'de>>(deserializer: D, place: &mut Self) -> Result<(), D::Error> {
        HashSet::deserialize_in_place(deserializer, place)
    }
}

#[cfg(all(test, feature = "serde"))]
mod test {
    use super::*;

    #[test]
    fn test_serde() {
        let mut set = AHashSet::new();
        set.insert("for".to_string());
        set.insert("bar".to_string());
        let mut serialization = serde_json::to_string(&set).unwrap();
        let mut deserialization: AHashSet<String> = serde_json::from_str(&serialization).unwrap();
        assert_eq!(deserialization, set);

        set.insert("baz".to_string());
        serialization = serde_json::to_string(&set).unwrap();
        let mut deserializer = serde_json::Deserializer::from_str(&serialization);
        AHashSet::deserialize_in_place(&mut deserializer, &mut deserialization).unwrap();
        assert_eq!(deserialization, set);
    }
}
