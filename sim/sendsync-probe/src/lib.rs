//! C18 (e): the engine, context, value and error types stay usable across threads.
//! Compile-time only: if a field is added that removes `Send`/`Sync`, this crate stops building and
//! `./check C18` reports that as a violation (DESIGN.md §5.1 e).
#![allow(dead_code)]
fn ss<T: Send + Sync>() {}

fn probe() {
    ss::<tera::Tera>();
    ss::<tera::Context>();
    ss::<tera::Value>();
    ss::<tera::Map>();
    ss::<tera::value::Key<'static>>();
    ss::<tera::Number>();
    ss::<tera::Error>();
    ss::<tera::ErrorKind>();
    ss::<tera::ReportError>();
    ss::<tera::Kwargs>();
    ss::<tera::Delimiters>();
    ss::<tera::ComponentInfo>();
    ss::<tera::State<'static>>();
    ss::<tera::Span>();
}
