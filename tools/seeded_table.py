#!/usr/bin/env python3
"""Regenerates the seeded-changes table of DESIGN.md 10.4 from /verif/seeded/*/{meta,result}.json.
Replaces the rows between the table header and the first blank line after it."""
import json, os, re

VERIF = os.path.dirname(os.path.dirname(os.path.abspath(__file__)))
HEADER = "| id | property | what the change does (author's summary, abridged) | needs | caught by |"


def abridge(s, n=230):
    s = re.sub(r"\s+", " ", str(s)).replace("|", "/")
    return s if len(s) <= n else s[: n - 1] + "…"


def caught_text(prop, res):
    cb = res.get("caught_by") or []
    own = [c for c in cb if c.split("@")[0] == prop]
    txt = ", ".join(cb) if cb else "MISSED"
    first = res.get("first_attempt_before_strengthening")
    if first is not None:
        fcb = first.get("caught_by") or []
        if not fcb:
            txt += " (missed at first; see below)"
        elif fcb != cb:
            txt += " (at first only by %s; see below)" % ", ".join(fcb)
    elif cb and not own:
        txt += " (not by its own check)"
    return txt


def main():
    rows = []
    d = os.path.join(VERIF, "seeded")
    for mid in sorted(os.listdir(d)):
        meta = json.load(open(os.path.join(d, mid, "meta.json")))
        res = json.load(open(os.path.join(d, mid, "result.json")))
        rows.append("| %s | %s | %s | %s | %s |" % (mid, meta["property"], abridge(meta.get("summary", "")), abridge(meta.get("needs", ""), 170), caught_text(meta["property"], res)))
    p = os.path.join(VERIF, "DESIGN.md")
    lines = open(p).read().split("\n")
    i = lines.index(HEADER)
    j = i + 2
    while j < len(lines) and lines[j].startswith("| "):
        j += 1
    lines[i + 2 : j] = rows
    open(p, "w").write("\n".join(lines))
    print(len(rows), "rows")


if __name__ == "__main__":
    main()
