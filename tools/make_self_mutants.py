#!/usr/bin/env python3
"""Builds the sensitivity self-test mutants (DESIGN.md 2.7) as patch files under
/verif/selftest/mutants/, verifying in a scratch worktree that each compiles and keeps the
baseline suite green. Usage: make_self_mutants.py <scratch worktree of /repo>"""
import json, os, subprocess, sys
wt = sys.argv[1]
OUT = "/verif/selftest/mutants"
M = [
 # (name, property, file, old, new, note)
 ("c18-swallow-writetext-error", "C18", "tera/src/vm/interpreter.rs",
  "                    } else {\n                        output.write_all(t.as_bytes())?;\n                    }",
  "                    } else {\n                        let _ = output.write_all(t.as_bytes());\n                    }",
  "error of WriteText's write_all swallowed"),
 ("c18-write-instead-of-write_all", "C18", "tera/src/vm/interpreter.rs",
  "                    } else {\n                        output.write_all(t.as_bytes())?;\n                    }",
  "                    } else {\n                        output.write(t.as_bytes())?;\n                    }",
  "write instead of write_all: short writes lose data"),
 ("c18-io-error-as-msg", "C18", "tera/src/errors.rs",
  "        Self::io_error(error)\n",
  "        Self::message(format!(\"Io error while writing rendered value to output: {:?}\", error.kind()))\n",
  "io::Error mapped to ErrorKind::Msg"),
 ("c18-block-buffer-write-ignored", "C18", "tera/src/vm/interpreter.rs",
  "            output.write_all(&state.block_buffer)?;",
  "            let _ = output.write_all(&state.block_buffer);",
  "render_block_to ignores the writer's error"),
 ("c10-undo-forward-order", "C10", "tera/src/tera.rs",
  "            // Undo in reverse so duplicate names within the batch restore correctly.\n            for (key, previous) in inserted.into_iter().rev() {",
  "            // Undo in reverse so duplicate names within the batch restore correctly.\n            for (key, previous) in inserted.into_iter() {",
  "rollback in forward order (duplicate names in a failing batch restore wrongly)"),
 ("c10-rollback-keeps-new-keys", "C10", "tera/src/tera.rs",
  "                    None => {\n                        self.templates.remove(&key);\n                    }\n                }\n            }\n        }\n        result\n    }\n\n    /// Add a template from a path",
  "                    None => {}\n                }\n            }\n        }\n        result\n    }\n\n    /// Add a template from a path",
  "rollback forgets to remove newly inserted names (raw batches)"),
 ("c10-components-not-rebuilt", "C10", "tera/src/tera.rs",
  "        self.components = components;\n        self.set_templates_auto_escape();",
  "        if self.components.len() <= components.len() {\n            self.components = components;\n        }\n        self.set_templates_auto_escape();",
  "component table not shrunk when a provider loses components"),
 ("c10-autoescape-not-recomputed", "C10", "tera/src/tera.rs",
  "        self.components = components;\n        self.set_templates_auto_escape();\n        Ok(())",
  "        self.components = components;\n        Ok(())",
  "finalize no longer recomputes autoescape flags (new templates keep the default)"),
 ("c10-glob-left-changed-on-failure", "C10", "tera/src/tera.rs",
  "            self.templates = prev_templates;\n            self.glob = prev_glob;",
  "            self.templates = prev_templates;\n            let _ = prev_glob;",
  "failed load_from_glob leaves the new glob in place"),
 ("c11-visited-before-walk", "C11", "tera/src/template.rs",
  "            stack.push(resolved.to_string());\n            walk(tera, &tera.templates[resolved], stack, visited)?;\n            stack.pop();\n            visited.insert(resolved.to_string());",
  "            visited.insert(resolved.to_string());\n            stack.push(resolved.to_string());\n            walk(tera, &tera.templates[resolved], stack, visited)?;\n            stack.pop();",
  "visited marked before the walk"),
 ("c11-parents-any-dropped", "C11", "tera/src/template.rs",
  "                if resolved == start.name || parents.iter().any(|name| name == resolved) {",
  "                if resolved == start.name {",
  "extends cycles not containing the start are missed"),
 ("c11-component-includes-not-collected", "C11", "tera/src/template.rs",
  "                for (name, spans) in compiler.include_calls {\n                    include_calls.entry(name).or_default().extend(spans);\n                }",
  "                let _ = compiler.include_calls;",
  "includes inside component bodies are not collected"),
 ("c04-break-on-ancestor-without-block", "C04", "tera/src/tera.rs",
  "                        if let Some(parent_chunk) = parent_tpl.blocks.get(block_name) {\n                            all_blocks.push(parent_chunk.clone());\n                            if !parent_chunk.is_calling_function(\"super\") {\n                                break;\n                            }\n                        }",
  "                        if let Some(parent_chunk) = parent_tpl.blocks.get(block_name) {\n                            all_blocks.push(parent_chunk.clone());\n                            if !parent_chunk.is_calling_function(\"super\") {\n                                break;\n                            }\n                        } else {\n                            break;\n                        }",
  "super() chain stops at an ancestor that does not define the block"),
 ("c04-inherited-farthest-first", "C04", "tera/src/tera.rs",
  "            for parent_name in parents.iter().rev() {\n                if let Some(parent_blocks) = tpl_blocks.get(parent_name).cloned() {",
  "            for parent_name in parents.iter() {\n                if let Some(parent_blocks) = tpl_blocks.get(parent_name).cloned() {",
  "inherited blocks filled from the farthest ancestor first"),
 ("c04-super-restores-wrong-level", "C04", "tera/src/vm/interpreter.rs",
  "                        state.blocks[pos].2 = level;\n                        res?;",
  "                        state.blocks[pos].2 = 0;\n                        res?;",
  "level after super() reset to 0 instead of restored"),
 ("c07-setblock-filters-not-collected", "C07", "tera/src/parsing/compiler.rs",
  "                        self.compile_kwargs(filter.kwargs);\n                        self.filter_calls\n                            .entry(filter.name.clone())\n                            .or_default()\n                            .push(span.clone());\n                        self.chunk\n                            .add(Instruction::ApplyFilter(filter.name), Some(span));\n                    }\n                }\n                let scope = if b.global {",
  "                        self.compile_kwargs(filter.kwargs);\n                        self.chunk\n                            .add(Instruction::ApplyFilter(filter.name), Some(span));\n                    }\n                }\n                let scope = if b.global {",
  "filters of set-block filter chains are not validated at add time"),
 ("c06-no-recursion-limit-in-parse_until", "C06", "tera/src/parsing/parser.rs",
  "        self.recursion_depth += 1;\n        if self.recursion_depth > MAX_RECURSION_DEPTH {\n            self.recursion_depth -= 1;\n            return Err(Error::syntax_error(\n                \"The template nesting is too deep\".to_string(),",
  "        self.recursion_depth += 1;\n        if self.recursion_depth > MAX_RECURSION_DEPTH * 1000 {\n            self.recursion_depth -= 1;\n            return Err(Error::syntax_error(\n                \"The template nesting is too deep\".to_string(),",
  "tag nesting limit effectively removed"),
]
def run(cmd, **kw):
    return subprocess.run(cmd, cwd=wt, stdout=subprocess.PIPE, stderr=subprocess.STDOUT, text=True, **kw)
index = []
for (name, prop, path, old, new, note) in M:
    run(["git", "checkout", "--", "."])
    p = os.path.join(wt, path)
    s = open(p).read()
    if s.count(old) != 1:
        print(name, "PATTERN NOT UNIQUE / NOT FOUND", s.count(old)); continue
    open(p, "w").write(s.replace(old, new))
    diff = run(["git", "diff", "--", "tera/src"]).stdout
    r = run(["cargo", "test", "--workspace", "--no-fail-fast", "--offline"], env=dict(os.environ, CARGO_NET_OFFLINE="true"))
    ok = r.returncode == 0
    r2 = run(["cargo", "check", "-p", "tera", "--offline", "--features", "glob_fs,fast_hash"], env=dict(os.environ, CARGO_NET_OFFLINE="true"))
    print(name, "baseline", "PASS" if ok else "FAIL", "features-build", r2.returncode == 0)
    if not ok:
        print("\n".join(l for l in r.stdout.splitlines() if "FAILED" in l or "failed" in l or "error" in l)[:1500])
    if ok and r2.returncode == 0:
        open(os.path.join(OUT, name + ".diff"), "w").write(diff)
        index.append({"name": name, "property": prop, "what": note, "baseline_suite": "pass"})
run(["git", "checkout", "--", "."])
json.dump(index, open(os.path.join(OUT, "index.json"), "w"), indent=1)
