#!/usr/bin/env python3
"""Runs the checks against seeded changes (sensitivity evidence; DESIGN.md 2.7 and 10).

  tools/run_mutants.py self   [name ...]     patches under /verif/selftest/mutants/*.diff
  tools/run_mutants.py seeded [id ...]       /verif/seeded/<id>/patch.diff

For every patch: `git -C /repo apply`, run the owning property's check (quick; if that does not
catch it, the other claimed checks quick, then the owning check at VERIF_SCALE=6), record
what caught it, and ALWAYS undo with `git -C /repo checkout -- .`. /repo must be clean before.
Results: /verif/selftest/results.json or /verif/seeded/<id>/result.json.
"""
import json, os, subprocess, sys, time

VERIF = os.path.dirname(os.path.dirname(os.path.abspath(__file__)))
CLAIMED = ["C18", "C10", "C11", "C04", "C07", "C06"]


def sh(cmd, **kw):
    return subprocess.run(cmd, stdout=subprocess.PIPE, stderr=subprocess.STDOUT, text=True, **kw)


def clean():
    r = sh(["git", "-C", "/repo", "status", "--porcelain"])
    return r.stdout.strip() == ""


ENV_EXTRA = {}


def run_check(prop, tier="quick", scale=None):
    env = dict(os.environ)
    env.update(ENV_EXTRA)
    if scale:
        env["VERIF_SCALE"] = str(scale)
    t0 = time.time()
    r = sh([os.path.join(VERIF, "check"), prop, tier], cwd=VERIF, env=env)
    lines = [l for l in r.stdout.splitlines() if l.startswith("VIOLATION") or l.startswith("check:   ")]
    return {"check": prop, "tier": tier, "scale": scale or 1, "exit": r.returncode, "wall_s": round(time.time() - t0, 1), "lines": lines[:8],
            "tail": r.stdout.splitlines()[-3:] if r.returncode not in (0, 1) else []}


def evaluate_worktree(worktree, prop, tag):
    """Evaluate a change that is applied in a scratch worktree of /repo, without touching /repo:
    a copy of the simulator workspace is pointed at the worktree."""
    sim = "/tmp/mutsim-%s" % tag
    out = "/tmp/mutout-%s" % tag
    sh(["rm", "-rf", sim, out])
    # (VERIF_SIM_SRC: evaluate with a development copy of the simulator instead of /verif/sim)
    src = os.environ.get("VERIF_SIM_SRC", os.path.join(VERIF, "sim"))
    sh(["rsync", "-a", "--exclude", "target", "--exclude", "target-alt", src + "/", sim + "/"])
    os.makedirs(out, exist_ok=True)
    man = os.path.join(sim, "tera-shadow", "Cargo.toml")
    import re as _re
    txt = _re.sub(r'path = "[^"]*/tera/src/lib.rs"', 'path = "%s/tera/src/lib.rs"' % worktree, open(man).read())
    open(man, "w").write(txt)
    ENV_EXTRA.update({"VERIF_SIM_DIR": sim, "VERIF_OUT_DIR": out})
    res = {"runs": [], "worktree": worktree}
    try:
        caught_by = []
        first = run_check(prop)
        res["runs"].append(first)
        if first["exit"] == 1:
            caught_by.append(prop)
        if first["exit"] == 2:
            res["error"] = "harness/build error"
        elif not caught_by:
            for p in [p for p in CLAIMED if p != prop]:
                r = run_check(p)
                res["runs"].append(r)
                if r["exit"] == 1:
                    caught_by.append(p)
            if not caught_by:
                r = run_check(prop, scale=6)
                res["runs"].append(r)
                if r["exit"] == 1:
                    caught_by.append(prop + "@x6")
        res["caught_by"] = caught_by
        res["caught"] = bool(caught_by)
        # keep one replay file as an illustration
        rp = os.path.join(out, "replays")
        if os.path.isdir(rp):
            res["replay_files"] = sorted(os.listdir(rp))[:4]
    finally:
        ENV_EXTRA.clear()
        sh(["rm", "-rf", sim])
    return res, out


def evaluate(patch, prop):
    if not clean():
        print("refusing: /repo has uncommitted changes")
        sys.exit(2)
    a = sh(["git", "-C", "/repo", "apply", patch])
    if a.returncode != 0:
        return {"error": "patch does not apply: " + a.stdout[-300:]}
    res = {"runs": []}
    try:
        order = [prop] + [p for p in CLAIMED if p != prop]
        caught_by = []
        first = run_check(prop)
        res["runs"].append(first)
        if first["exit"] == 1:
            caught_by.append(prop)
        if first["exit"] == 2:
            res["error"] = "harness/build error"
        elif not caught_by:
            for p in order[1:]:
                r = run_check(p)
                res["runs"].append(r)
                if r["exit"] == 1:
                    caught_by.append(p)
            if not caught_by:
                r = run_check(prop, scale=6)
                res["runs"].append(r)
                if r["exit"] == 1:
                    caught_by.append(prop + "@x6")
        res["caught_by"] = caught_by
        res["caught"] = bool(caught_by)
    finally:
        sh(["git", "-C", "/repo", "checkout", "--", "."])
        # remove replay files produced against the mutant
        sh(["rm", "-rf", os.path.join(VERIF, "replays")])
    return res


def main():
    kind = sys.argv[1]
    only = sys.argv[2:]
    if kind == "worktree":
        # tools/run_mutants.py worktree <dir> <property> <tag>
        r, out = evaluate_worktree(sys.argv[2], sys.argv[3], sys.argv[4])
        json.dump(r, open("/tmp/mutresult-%s.json" % sys.argv[4], "w"), indent=1, sort_keys=True)
        print(sys.argv[4], "->", r.get("caught_by"), r.get("error", ""), "outputs in", out)
        return
    if kind == "self":
        d = os.path.join(VERIF, "selftest", "mutants")
        index = json.load(open(os.path.join(d, "index.json")))
        out_path = os.path.join(VERIF, "selftest", "results.json")
        results = json.load(open(out_path)) if os.path.exists(out_path) else {}
        for m in index:
            if only and m["name"] not in only:
                continue
            r = evaluate(os.path.join(d, m["name"] + ".diff"), m["property"])
            r.update({"property": m["property"], "what": m["what"]})
            results[m["name"]] = r
            print(m["name"], "->", r.get("caught_by"), r.get("error", ""))
            json.dump(results, open(out_path, "w"), indent=1, sort_keys=True)
    else:
        d = os.path.join(VERIF, "seeded")
        for mid in sorted(os.listdir(d)):
            if only and mid not in only:
                continue
            meta = json.load(open(os.path.join(d, mid, "meta.json")))
            r = evaluate(os.path.join(d, mid, "patch.diff"), meta["property"])
            # a re-run keeps the history of the first evaluation
            rp = os.path.join(d, mid, "result.json")
            if os.path.exists(rp):
                old = json.load(open(rp))
                for k in ("first_attempt_before_strengthening", "note", "replay_files"):
                    if k in old and k not in r:
                        r[k] = old[k]
            r["rerun_against_repo_with_final_machinery"] = True
            json.dump(r, open(rp, "w"), indent=1, sort_keys=True)
            print(mid, "->", r.get("caught_by"), r.get("error", ""))
    # leave the unchanged tree's build in place
    sh([os.path.join(VERIF, "check"), "setup"], cwd=VERIF)


if __name__ == "__main__":
    main()
