#!/usr/bin/env python3
"""Prints the markdown table of DESIGN.md 10.1 from evidence/ (quick) and evidence_thorough/."""
import json, os
V = os.path.dirname(os.path.dirname(os.path.abspath(__file__)))
print("| check | phases: engine/family [build] (quick runs / thorough runs) | quick wall | thorough wall |")
print("|---|---|---|---|")
for p in ["C18", "C10", "C11", "C04", "C07", "C06"]:
    q = json.load(open(os.path.join(V, "evidence", p + ".json")))
    t = json.load(open(os.path.join(V, "evidence_thorough", p + ".json")))
    def phases(e):
        return e["coverage"].get("phases") or e.get("phases") or []
    qp, tp = phases(q), phases(t)
    cells = []
    for a, b in zip(qp, tp):
        bld = "" if a.get("build", "default") == "default" else " [alt]"
        cells.append("%s/%s%s %s / %s" % (a["engine"], a["family"], bld, format(a["runs"], ","), format(b["runs"], ",")))
    print("| %s | %s | %.0f s | %.1f min |" % (p, "; ".join(cells), q["wall_s"], t["wall_s"] / 60.0))
