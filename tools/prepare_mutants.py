#!/usr/bin/env python3
"""tools/prepare_mutants.py <angles.json>   ({"C10o": "<angle>", ...})
Creates one detached scratch worktree of /repo per id under /tmp/mut/<id>, the property text
/tmp/mut/<prop>.txt (nothing else from /verif) and the task description /tmp/mut/prompts/<id>.txt."""
import json, os, subprocess, sys

VERIF = os.path.dirname(os.path.dirname(os.path.abspath(__file__)))
angles = json.load(open(sys.argv[1]))
base = open(os.path.join(VERIF, "tools", "mutant_prompt.txt")).read()
props = {}
for line in open(os.path.join(VERIF, "properties.jsonl")):
    p = json.loads(line)
    props[p["id"]] = p
os.makedirs("/tmp/mut/prompts", exist_ok=True)
for k, a in angles.items():
    prop = k[:3]
    d = "/tmp/mut/" + k
    if not os.path.isdir(d):
        subprocess.check_call(["git", "-C", "/repo", "worktree", "add", "-q", "--detach", d, "HEAD"])
    os.makedirs(d + "/MUTANT", exist_ok=True)
    p = props[prop]
    with open("/tmp/mut/%s.txt" % prop, "w") as f:
        f.write("Property %s: %s\n\n" % (prop, p.get("title", "")))
        for key, v in p.items():
            if key in ("id", "title", "added_in_round", "source"):
                continue
            f.write("%s: %s\n\n" % (key, v if isinstance(v, str) else json.dumps(v, indent=1)))
    open("/tmp/mut/prompts/%s.txt" % k, "w").write(base.format(dir=d, prop=prop, angle=a))
print("prepared", sorted(angles))
