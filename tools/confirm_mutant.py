#!/usr/bin/env python3
"""Confirms a seeded change delivered in a scratch worktree (<wt>/MUTANT/{patch.diff,demo.rs,meta.json})
and files it under /verif/seeded/<id>/:
  1. the change is applied in the worktree: baseline suite must pass (default features and glob_fs)
  2. the demo test must FAIL with the change and PASS without it
  3. the checks are run against the worktree (tools/run_mutants.py worktree ...)
Usage: confirm_mutant.py <id> <worktree> <property>"""
import json, os, shutil, subprocess, sys
mid, wt, prop = sys.argv[1:4]
VERIF = "/verif"
env = dict(os.environ, CARGO_NET_OFFLINE="true")
def sh(cmd, **kw):
    return subprocess.run(cmd, cwd=wt, stdout=subprocess.PIPE, stderr=subprocess.STDOUT, text=True, env=env, **kw)
meta = json.load(open(os.path.join(wt, "MUTANT", "meta.json")))
# features named in how_to_run (glob_fs for file loading; unicode / no_fmt / fast_escape for changes
# that live in feature-gated code: the baseline suite cannot see those by construction)
_named = [f for f in ("glob_fs", "unicode", "no_fmt", "fast_escape", "preserve_order", "fast_hash") if f in meta.get("how_to_run", "")]
feat = ["--features", ",".join(_named)] if _named else []
demo_dst = os.path.join(wt, "tera", "tests", "mutant_demo.rs")
conf = {}
# the patch on file must be what is applied
diff_now = sh(["git", "diff", "--", "tera/src"]).stdout
conf["patch_matches_worktree"] = diff_now.strip() == open(os.path.join(wt, "MUTANT", "patch.diff")).read().strip()
r = sh(["cargo", "test", "--workspace", "--no-fail-fast", "--offline"])
conf["baseline_default_features_pass"] = r.returncode == 0
r = sh(["cargo", "test", "-p", "tera", "--offline", "--features", "glob_fs"])
conf["baseline_glob_fs_pass"] = r.returncode == 0
shutil.copy(os.path.join(wt, "MUTANT", "demo.rs"), demo_dst)
try:
    r = sh(["cargo", "test", "-p", "tera", "--offline", "--test", "mutant_demo"] + feat, timeout=600)
    conf["demo_with_change"] = "fails" if r.returncode != 0 else "passes"
    conf["demo_with_change_tail"] = r.stdout.strip().splitlines()[-6:]
    # (not `git stash`: the stash is shared by all worktrees of a repository)
    patch = os.path.join(wt, "MUTANT", "patch.diff")
    sh(["git", "apply", "-R", patch])
    try:
        r = sh(["cargo", "test", "-p", "tera", "--offline", "--test", "mutant_demo"] + feat, timeout=600)
        conf["demo_without_change"] = "passes" if r.returncode == 0 else "fails"
    finally:
        sh(["git", "apply", patch])
finally:
    os.remove(demo_dst)
conf["ok"] = bool(conf["baseline_default_features_pass"] and conf["baseline_glob_fs_pass"] and conf["demo_with_change"] == "fails" and conf.get("demo_without_change") == "passes")
print(mid, json.dumps({k: v for k, v in conf.items() if k != "demo_with_change_tail"}))
if not conf["ok"]:
    print("NOT CONFIRMED"); sys.exit(1)
r = subprocess.run([os.path.join(VERIF, "tools", "run_mutants.py"), "worktree", wt, prop, mid], stdout=subprocess.PIPE, stderr=subprocess.STDOUT, text=True)
print(r.stdout.strip().splitlines()[-1])
res = json.load(open("/tmp/mutresult-%s.json" % mid))
dst = os.path.join(VERIF, "seeded", mid)
os.makedirs(dst, exist_ok=True)
for f in ("patch.diff", "demo.rs"):
    shutil.copy(os.path.join(wt, "MUTANT", f), os.path.join(dst, f))
meta["confirmed_by_me"] = conf
meta["what_i_ran"] = ["cargo test --workspace --no-fail-fast --offline (with change)", "cargo test -p tera --offline --features glob_fs (with change)",
                      "cargo test -p tera --offline --test mutant_demo (with change: must fail; after git apply -R: must pass)",
                      "tools/run_mutants.py worktree <wt> %s %s (checks built against the worktree)" % (prop, mid)]
json.dump(meta, open(os.path.join(dst, "meta.json"), "w"), indent=1, sort_keys=True)
res.pop("worktree", None)
json.dump(res, open(os.path.join(dst, "result.json"), "w"), indent=1, sort_keys=True)
# keep one minimised replay as illustration
out = "/tmp/mutout-%s" % mid
rp = os.path.join(out, "replays")
if os.path.isdir(rp):
    fs = sorted(os.listdir(rp))
    if fs:
        shutil.copy(os.path.join(rp, fs[0]), os.path.join(dst, "example_replay.json"))
shutil.rmtree(out, ignore_errors=True)
